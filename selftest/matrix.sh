#!/bin/bash
# Cross matrix: every seeded / hand mutant against EVERY check. A check firing on a mutant of
# another property is either a real second violation or a false alarm - each such cell is
# reviewed by hand (DESIGN.md section 12).
# usage: selftest/matrix.sh <outfile> [patch ...]
set -u
mkdir -p /root/scratch
OUT="$1"; shift
export GOFLAGS=-mod=mod GOPROXY=off GOSUMDB=off GOTOOLCHAIN=local
PATCHES=("$@"); [ ${#PATCHES[@]} -eq 0 ] && PATCHES=(/verif/seeded/*/patch.diff /verif/selftest/mutants/*.diff)
for P in "${PATCHES[@]}"; do
  name=$(echo "$P" | sed 's#/verif/seeded/##; s#/patch.diff##; s#/verif/selftest/mutants/##; s#.diff##')
  S=$(mktemp -d /root/scratch/mx.XXXXXX)
  rsync -a --exclude .git --exclude testdata/fuzz /repo/ "$S/"
  ( cd "$S" && patch -p1 -s < "$P" ) || { echo "$name PATCHFAIL" >> "$OUT"; rm -rf "$S"; continue; }
  row="$name"
  for id in C03 C07 C08 C09 C10 C12 C14 C15 C16 C18 C19 C20; do
    VERIF_REPO="$S" VERIF_OUT="$S/.out" VERIF_WORKERS="${VERIF_WORKERS:-8}" /verif/check $id quick > "$S/.log" 2>&1; rc=$?
    case $rc in 0) cell="-";; 1) cell="$id:$(grep -m1 -o 'minimised to.*' "$S/.log" | sed 's/minimised to [0-9]* ops, [0-9]* document bytes: //' | cut -d' ' -f1)";; *) cell="$id:rc$rc";; esac
    row="$row $cell"
  done
  echo "$row" >> "$OUT"
  rm -rf "$S"
done
