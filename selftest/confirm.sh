#!/bin/bash
# usage: selftest/confirm.sh <dir with patch.diff + demo_test.go>
# Confirms, in a scratch copy of /repo: the demo passes without the patch; with the patch the
# package compiles, the pinned suite passes (demo absent) and the demo fails.
set -u
mkdir -p /root/scratch
D="$(readlink -f "$1")"
export GOFLAGS=-mod=mod GOPROXY=off GOSUMDB=off GOTOOLCHAIN=local
S=$(mktemp -d /root/scratch/confirm.XXXXXX); trap 'rm -rf "$S"' EXIT
rsync -a --exclude .git /repo/ "$S/"
cd "$S"
RACE=""; grep -qi "race" "$D/notes.md" 2>/dev/null && RACE="-race"
cp "$D/demo_test.go" ./zz_demo_test.go
go test $RACE -vet=off -count=1 -run "$(grep -o 'func Test[A-Za-z0-9_]*' zz_demo_test.go | sed 's/func //' | paste -sd'|')" . > demo_clean.log 2>&1; c=$?
echo "demo without patch: rc=$c (want 0)"; [ $c -ne 0 ] && tail -5 demo_clean.log
rm zz_demo_test.go
git init -q . 2>/dev/null; patch -p1 -s < "$D/patch.diff" || { echo "PATCH DOES NOT APPLY"; exit 1; }
go build ./... || { echo "DOES NOT COMPILE"; exit 1; }
go test -vet=off -count=1 ./... > suite.log 2>&1; s=$?
echo "suite with patch: rc=$s (want 0)"; [ $s -ne 0 ] && grep -m5 "FAIL\|panic" suite.log
cp "$D/demo_test.go" ./zz_demo_test.go
go test $RACE -vet=off -count=1 -run "$(grep -o 'func Test[A-Za-z0-9_]*' zz_demo_test.go | sed 's/func //' | paste -sd'|')" . > demo_mut.log 2>&1; m=$?
echo "demo with patch: rc=$m (want non-zero)"; grep -m3 -- "--- FAIL\|DATA RACE\|panic:" demo_mut.log
[ $c -eq 0 ] && [ $s -eq 0 ] && [ $m -ne 0 ] && echo CONFIRMED || echo NOT-CONFIRMED
