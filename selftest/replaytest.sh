#!/bin/bash
# Replay self-test: for every seeded / hand mutant, run the check of its property on a scratch copy
# with the patch applied; the replay file the check wrote must (a) reproduce the violation when it is
# replayed against the mutated copy in a fresh process, and (b) report no violation when it is
# replayed against the unchanged /repo. (a) failing means replay is not a pure function of the
# file and the code; (b) failing would mean the scenario is a false alarm on the unchanged tree.
# usage: selftest/replaytest.sh [seeded-id-glob]        (default: every /verif/seeded/*/)
set -u
mkdir -p /root/scratch
export GOFLAGS=-mod=mod GOPROXY=off GOSUMDB=off GOTOOLCHAIN=local
cd /verif/seeded || exit 0
rc=0
for d in ${1:-*}/; do
  d=${d%/}
  [ -f "$d/meta.json" ] || continue
  prop=$(python3 -c "import json;print(json.load(open('$d/meta.json'))['property'])")
  also=$(python3 -c "import json;print(' '.join(json.load(open('$d/meta.json')).get('also_run',[])))")
  S=$(mktemp -d /root/scratch/rp.XXXXXX)
  rsync -a --exclude .git --exclude testdata/fuzz /repo/ "$S/"
  ( cd "$S" && patch -p1 -s < "/verif/seeded/$d/patch.diff" ) || { echo "$d PATCHFAIL"; rm -rf "$S"; continue; }
  found=""
  for id in $prop $also; do
    VERIF_REPO="$S" VERIF_OUT="$S/.out" /verif/check $id quick > "$S/.log" 2>&1
    f=$(grep -m1 -o 'replay=.*' "$S/.log" | cut -d= -f2)
    if [ -n "$f" ]; then found=$id; break; fi
  done
  if [ -z "$found" ]; then echo "$d: not detected (nothing to replay)"; rm -rf "$S"; continue; fi
  VERIF_REPO="$S" VERIF_OUT="$S/.out" /verif/check $found --replay "$f" > "$S/.r1" 2>&1; r1=$?
  /verif/check $found --replay "$f" > "$S/.r2" 2>&1; r2=$?
  if [ $r1 -eq 1 ] && [ $r2 -eq 0 ]; then echo "$d ($found): replay reproduces on the mutant (exit 1), silent on the unchanged tree (exit 0)";
  else echo "$d ($found): REPLAY PROBLEM mutant-exit=$r1 clean-exit=$r2"; tail -n 3 "$S/.r1"; tail -n 3 "$S/.r2"; rc=1; fi
  rm -rf "$S"
done
exit $rc
