#!/usr/bin/env python3
"""intake.py: copy confirmed sub-agent mutants /tmp/wt_<P>/mutants/<N>/ to /verif/seeded/<P>-<N>/ with meta.json"""
import json, os, shutil, sys
S = {
 "C03-1": ("pooled child reader keeps the depth it was created with", "one reader used through both ReadArray/ReadObject and ReadValue, a pool hit, and a document exactly at the 10,000 depth limit"),
 "C03-2": ("ReadArray without a size hint reuses the reader's element slice", "a direct ReadArray that failed after reading >=1 element, then another direct ReadArray on the same reader"),
 "C03-3": ("a newly built child reader shares the parent's fieldNameBuf", "an escaped key whose value is an object with an escaped key of at most the same length, first member"),
 "C07-1": ("direct string members of a handled array accept raw control bytes", "handler declines (returns 0) a string member containing a byte < 0x20"),
 "C07-2": ("object machine's stack growth loses return states (copy arguments reversed)", "handler declines a member nested >= 17 deep with a fresh/short Buffer: silent success mid-document"),
 "C07-3": ("leadingNull fast path returns an offset relative to the whitespace-trimmed data", "top-level null preceded by whitespace"),
 "C08-1": ("SkipValueFast ignores backslash escapes in strings nested inside a skipped container", "nested string with an escaped quote, member skipped with SkipValueFast"),
 "C08-2": ("ReadString's control-character check is < 0x1f instead of <= 0x1f", "raw 0x1f byte in a string before its first escape, read with ReadString/DecodeString by a read-everything decoder"),
 "C08-3": ("depth guard of the skip machines tests len(stack) after growing", "a shared Buffer, a rejected 10,001-deep call in the middle, then any nested SkipValue/SkipValueFast"),
 "C09-1": ("array machine: on a handler error at a scalar member the scalar is skipped to report a position; a skip error replaces the handler's", "handler error at a malformed / cut-short scalar member (tru, -, 1., 1e+)"),
 "C09-2": ("object machine: try_handler treats (0, err) as 'value left to skip'", "handler returns offset 0 together with an error on a string/array/object member"),
 "C09-3": ("public wrappers map errUnexpectedEOF to errInvalidArray/Object", "handler delegates to SkipValue on a truncated nested container and returns that sentinel"),
 "C10-1": ("StdLibCompatibleStringBytes encodes each rune in place into spare capacity, guaranteeing room only for the bytes read", "invalid UTF-8 byte reached while the caller's buffer has 1 or 2 spare bytes and no grow has happened yet"),
 "C10-2": ("one generated copy of try_handler (object machine, tr50) has the overflowing p+pp-1 >= pe check", "HandleObjectValues, non-first field whose value is an object, handler offset within a few of MaxInt"),
 "C10-3": ("Buffer gains a sync.Mutex held by every buffer-taking function", "a handler passes the enclosing call's *Buffer to a nested rjson call: deadlock (never returns)"),
 "C18-1": ("package-level scratch decimal in the slow float fallback", "two calls in the slow float path (subnormal / >19-digit boundary mantissas) at the same time"),
 "C18-2": ("package-level child-reader pool plus arrVal reset after Put", "nested arrays decoded concurrently by two readers, hand-over inside the window"),
 "C18-3": ("TokenType.String memoises unknown-type text into the package-level table", "data race only, first use, token type values without a name"),
 "C12-1": ("DecodeFloat64 integer fast path through ReadInt64", "input -0: +0 stored instead of -0"),
 "C12-2": ("ReadString returns a string aliasing *buf on the escape path", "two DecodeString calls on the same target and scratch; the second fails part-way through an escape"),
 "C12-3": ("readNull no longer accepts CR after the first whitespace byte", "null behind a whitespace prefix containing \\r after another whitespace byte"),
 "C14-1": ("object machine pushes the return state before calling the handler", "handler re-enters SkipValue with the enclosing call's already-used Buffer on an array/object member"),
 "C14-2": ("depth-limit check folded into the stack-needs-to-grow branch", "an earlier Handle*Values call left a stack longer than 10,000 in the Buffer, then a too-deep document"),
 "C14-3": ("buffered branch of SkipValueFast calls skipValue", "bracket-balanced but invalid container such as [1 2] with a non-nil Buffer"),
 "C15-1": ("pooled child reader keeps the depth it was created with", "reader used through both ReadValue and ReadArray/ReadObject, pool hit, document at depth 10,000"),
 "C15-2": ("ReadObject clears and reuses objVal when lastMapSize == 0 and the map is non-empty", "caller adds a key to a previously returned empty {} result, then reads again on the same reader"),
 "C15-3": ("depth reset only on the success path of ReadObject/ReadArray", "a failing direct ReadObject/ReadArray, then ReadValue of a document nested exactly 10,000 deep"),
 "C16-1": ("ReadString returns the scratch bytes as the string via unsafe when cap(*buf)==0", "non-nil buf pointing at a zero-capacity slice, escaped string, then the scratch is reused/overwritten"),
 "C16-2": ("'not a string' error excerpt appends '...' into a sub-slice of the input", "failing ReadString/ReadStringBytes with more than 20 bytes after the offending byte"),
 "C16-3": ("top-level ReadArray recycles the slice it already returned", "second direct ReadArray on the same ValueReader"),
 "C19-1": ("decimal.set takes a string: slow float fallback converts data[:n] to string", "slow-path float literal longer than 32 bytes"),
 "C19-2": ("ReadUint64's no-digits error built with fmt.Errorf", "numeric Decode functions on null (nullOrBust discards the error)"),
 "C19-3": ("Buffer.trim drops the stack when cap > 1024 after every call", "warmed Buffer and documents nested deeper than ~1024"),
 "C20-1": ("ReadObject no longer resets lastMapSize before make", "one large object, then many failing object reads on the same reader"),
 "C20-2": ("growBytesSliceCapacity grows to the exact size with make+copy", "a long run of \\uXXXX escapes through ReadStringBytes/ReadValue into a small buffer: quadratic"),
 "C20-3": ("new child reader gets a stringBuf with the parent's capacity", "fresh reader: one long string followed by deep tiny nesting"),
}

S2 = {
 "C03-4": ("depth check moved before the pool borrow; one of four sites uses > where the others use >=", "document nested 10,001 deep whose deepest container is an array that is directly an object member"),
 "C03-5": ("fieldNameBuf and stringBuf lazily carved from one 128-byte allocation without capping the first", "escaped key of decoded length 65..128 whose value is a string <= 64 bytes, on a reader that has not grown either buffer"),
 "C03-6": ("manual depth resets; ReadObject's null-rejection return forgets one; null check skipped for non-top-level readers", "after one rejected ReadObject(null), later ReadObject/ReadArray on the same reader accept null as an empty container"),
 "C07-4": ("checkHandlerDepth returns errMaxDepth when len(buffer.stackBuf) > skipMaxDepth", "a Buffer once used on a document nested >= 10,002 deep, then any Handle*Values call with it"),
 "C07-5": ("early exit after skipFloatDec/skipFloatExp errors removed in the handler machines", "dangling number (1. / 1e / 3E+) inside a declined member, followed by another member"),
 "C07-6": ("one transition of the array machine ({ after whitespace as first element of a nested array) goes to the member-level transition", "declining handler, nested '[ {' with whitespace between: handler invoked on non-members, early success offset"),
 "C08-4": ("SkipValueFast's stack enlargement allocates a new slice without copying live entries", "fresh Buffer with >= 16 same-kind nested containers skipped with SkipValueFast: nil error, offset inside the value"),
 "C08-5": ("escape branch of ReadStringBytes appends to buf[:0]", "decoder appending several strings into one buffer, one of them with an escape: wrong tree, offsets correct"),
 "C08-6": ("nil-Buffer branch of SkipValue calls skipValueFast", "decoder skipping with SkipValue(data, nil) accepts malformed content inside bracket-balanced containers"),
 "C09-4": ("array machine: range check moved above the error check", "handler error on a string/array/object member together with an offset past the end of the data"),
 "C09-5": ("object machine try_handler_simple uses the handler's error as a map key", "scalar member, handler returns an error of unhashable dynamic type (slice/map/func): panic"),
 "C09-6": ("HandlerFunc adapters turn an error interface holding a typed nil pointer into nil", "func handler returns a sentinel that is a typed nil pointer: swallowed, traversal continues"),
 "C12-4": ("nullOrBust starts the null check at the offset where the reader gave up", "prefix the reader half-consumes followed by null: -null, tnull, 1e999null"),
 "C12-5": ("nullOrBust rejects null followed by a letter, digit or underscore", "inputs that begin with null followed by an identifier character: nullable, null0"),
 "C12-6": ("ReadNull fast path helper skips byte 0", "any ?ull at offset 0 that the reader rejects is accepted as null: full, Null, -ull"),
 "C14-4": ("Buffer nesting counter capped at skipMaxDepth, decrement skipped on error returns", ">= 10,000 failed Handle*Values calls on one Buffer, then any Handle*Values call"),
 "C14-5": ("skip machines' prepush replaces a stack shorter than 8 with make([]int, 8)", "a Buffer whose stack a Handle*Values call left at length 2..7, then SkipValue/Valid on a deeper document"),
 "C14-6": ("Valid records the accepted slice header in the Buffer; SkipValue then uses the fast machine for the same address+length", "caller copies a different same-length bracket-balanced invalid message into the same backing array after a successful Valid"),
 "C15-4": ("key scratch buffer truncated only after a member is stored", "failing call with an escaped key in flight, then an escaped key handled first by that reader"),
 "C15-5": ("result slice allocated lazily on the first item", "[] read right after a non-empty array, caller appends to the later empty result: earlier array overwritten"),
 "C15-6": ("top-level string >= 128 bytes returned pointing at stringBuf (unsafe)", "ReadValue of a long bare string, then a later string read through the same reader"),
 "C16-4": ("shared escape-tail helper resets its buffer with [:0]", "ReadStringBytes with a non-empty destination and an escaped string"),
 "C16-5": ("returnValueReader nils the child's containers; ReadObject keeps objVal when non-nil and empty", "direct ReadObject returning {}, then a second direct ReadObject with a non-empty object"),
 "C16-6": ("StdLibCompatibleStringBytes fast path validates the whole buffer instead of the appended part", "destination ending in the middle of a multi-byte sequence, input starting with the matching continuation bytes"),
 "C18-4": ("package-level spare ValueReader behind a CAS flag; deferred clear runs for losers too", "three-step overlap of package-level ReadValue calls on top-level strings"),
 "C18-5": ("SkipValueFast with nil Buffer starts from a package-level zero-length, capacity-32 stack", "concurrent SkipValueFast(nil) on containers nested >= 2"),
 "C18-6": ("package-level atomic handlerDepth recursion guard (limit 10,000)", "handlers recursing through the public functions in several goroutines whose combined depth exceeds 10,000; no data race"),
 "C19-4": ("skipValue prepush grows with append(stack, 0)", "second use of a Buffer on a document of exactly the same depth 1,2,4,8,.. (cap == len)"),
 "C19-5": ("decimal.Shift calls through a function value: decimal escapes to the heap", "any float reaching the slow fallback"),
 "C19-6": ("unescapeUnicodeChar reserves origLen+2*UTFMax", "UnescapeStringContent with spare capacity exactly the input length and a non-pair \\u escape within 2 bytes of the end"),
 "C20-4": ("ReadArray without a slice hint falls back to lastMapSize (never consumed)", "a large object followed by many empty arrays on one reader"),
 "C20-5": ("unescapeStringContent pre-grows by cap(data) instead of len(data)", "escaped keys at many nesting levels with a large remainder of the document after them"),
 "C20-6": ("Handle*Values run on a defensive copy of buffer.stackBuf", "a deep SkipValue/Valid on a Buffer, then many tiny traversals with the same Buffer"),
 "C10-4": ("skipValueFast stack allocated once (if nil) and never grown", "a Buffer last used by another entry point (short non-nil stack) then SkipValueFast on a deeper value: panic"),
 "C10-5": ("getu4(s[6:12]) reslice bounded by capacity, not length", "high-surrogate escape within 11 bytes of the end of cap(data): panic / reads beyond the input"),
 "C10-6": ("object machine try_handler: single unsigned check uint(p+pp-1) >= uint(pe)", "small negative handler offset landing on a valid resume position: accepted, never terminates if repeated"),
}
S.update(S2)
for key in sys.argv[1:]:
    p, n = key.split('-')
    src = '/tmp/wt_%s/mutants/%s' % (p, n)
    if int(n) > 16:
        src = '/tmp/wt7_%s/mutants/%d' % (p, int(n) - 16)  # seventh wave: delivered as 1..2, kept as 17..18
    elif int(n) > 14:
        src = '/tmp/wt_%s/mutants/%d' % (p, int(n) - 14)  # sixth wave: delivered as 1..2, kept as 15..16
    elif int(n) > 12:
        src = '/tmp/wt_%s/mutants/%d' % (p, int(n) - 12)  # fifth wave: delivered as 1..2, kept as 13..14
    elif int(n) > 9:
        src = '/tmp/wt_%s/mutants/%d' % (p, int(n) - 9)  # fourth wave: delivered as 1..3, kept as 10..12
    elif int(n) > 6:
        src = '/tmp/wt_%s/mutants/%d' % (p, int(n) - 6)  # third wave: delivered as 1..3, kept as 7..9
    elif int(n) > 3:
        src = '/tmp/wave2_%s/%d' % (p, int(n) - 3)  # second wave: delivered as 1..3, kept as 4..6
    dst = '/verif/seeded/%s' % key
    os.makedirs(dst, exist_ok=True)
    for f in ('patch.diff', 'demo_test.go', 'notes.md'):
        shutil.copy(os.path.join(src, f), os.path.join(dst, f))
    what, needs = S.get(key, ("", ""))
    if not what:
        # no hand-written summary: take the first descriptive lines of the sub-agent's notes
        lines = [l.strip() for l in open(os.path.join(src, 'notes.md'), encoding='utf-8', errors='replace') if l.strip() and not l.startswith('#')]
        what = ' '.join(lines[:3])[:400]
        needs = "see notes.md" 
    meta = {"property": p, "source": "independent sub-agent, given only the property text and a scratch worktree",
            "change": what, "needs_to_manifest": needs,
            "confirmed": "selftest/confirm.sh %s: demo passes on the unchanged tree; with the patch the package compiles, the pinned suite passes and the demo fails" % dst,
            "tier": "quick"}
    json.dump(meta, open(os.path.join(dst, 'meta.json'), 'w'), indent=1)
    print("kept", key)
