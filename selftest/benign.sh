#!/bin/bash
# No-false-alarm self-test on BENIGN changes: /verif/benign/<id>/patch.diff are refactors / optimisations written
# by independent sub-agents that were given the twenty property statements and asked to keep every one of them
# true while changing internal behaviour noticeably (error texts and identities, buffer growth, stack layout,
# pooling, check order, generated-machine structure). Every check must stay silent on every one of them.
# usage: selftest/benign.sh [id-glob] [check ...]
set -u
mkdir -p /root/scratch
export GOFLAGS=-mod=mod GOPROXY=off GOSUMDB=off GOTOOLCHAIN=local
G="${1:-*}"; shift || true
CHECKS="${*:-C03 C07 C08 C09 C10 C12 C14 C15 C16 C18 C19 C20}"
rc=0
for d in /verif/benign/$G/; do
  name=$(basename "$d")
  S=$(mktemp -d /root/scratch/bn.XXXXXX)
  rsync -a --exclude .git --exclude testdata/fuzz /repo/ "$S/"
  ( cd "$S" && patch -p1 -s < "$d/patch.diff" ) || { echo "$name PATCHFAIL"; rm -rf "$S"; continue; }
  ( cd "$S" && go build ./... && go build -tags verif ./... ) || { echo "$name DOES NOT BUILD"; rm -rf "$S"; continue; }
  row="$name:"
  for id in $CHECKS; do
    VERIF_REPO="$S" VERIF_OUT="$S/.out" /verif/check $id quick > "$S/.log.$id" 2>&1; r=$?
    if [ $r -eq 0 ]; then row="$row $id=ok"; else row="$row $id=rc$r"; rc=1; cp "$S/.log.$id" "/root/scratch/benign.$name.$id.log"; fi
  done
  echo "$row"
  rm -rf "$S"
done
exit $rc
