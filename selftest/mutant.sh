#!/bin/bash
# usage: selftest/mutant.sh <patch.diff> <ID> [quick|thorough]
# Applies a patch to a scratch copy of /repo (never to /repo), optionally runs the pinned
# suite on it, runs one check against it, and removes the copy.
set -u
mkdir -p /root/scratch
PATCH="$(readlink -f "$1")"; ID="$2"; TIER="${3:-quick}"
export GOFLAGS=-mod=mod GOPROXY=off GOSUMDB=off GOTOOLCHAIN=local
S=$(mktemp -d /root/scratch/mut.XXXXXX)
trap 'rm -rf "$S"' EXIT
rsync -a --exclude .git --exclude testdata/fuzz /repo/ "$S/"
( cd "$S" && patch -p1 -s < "$PATCH" ) || { echo "patch failed"; exit 2; }
( cd "$S" && go build ./... ) || { echo "mutant does not compile"; exit 2; }
if [ "${RUN_SUITE:-0}" = 1 ]; then
  rsync -a /repo/testdata/fuzz "$S/testdata/"
  ( cd "$S" && go test -vet=off -count=1 ./... 2>&1 | tail -3 )
fi
VERIF_REPO="$S" VERIF_OUT="$S/.verifout" /verif/check "$ID" "$TIER" > "$S/.out" 2>&1; rc=$?; tail -${TAIL:-8} "$S/.out"; echo "exit=$rc"

