#!/bin/bash
# runs every hand-written mutant selftest/mutants/<prop>_*.diff against the check of the property in its name
cd /verif/selftest/mutants || exit 2
for f in ${1:-*.diff}; do
  prop=$(echo "$f" | sed 's/^\(c[0-9]*\)_.*/\1/' | tr c C)
  out=$(TAIL=400 /verif/selftest/mutant.sh "$f" "$prop" quick 2>&1)
  if echo "$out" | grep -q "^VIOLATION property=$prop"; then
    echo "detected  $f ($prop): $(echo "$out" | grep -m1 '^minimised to' | cut -c1-170)"
  else
    echo "MISSED    $f ($prop): $(echo "$out" | tail -2 | head -1 | cut -c1-120)"
  fi
done
