#!/bin/bash
# Diagnostic, not a check: statement coverage of package rjson under the quick tier of every single-task check,
# to find generated copies (transitions, depth checks, end-of-input actions) that no generated document reaches.
# usage: selftest/coverage.sh        -> prints the percentages and the uncovered non-dispatch blocks of the machines
set -u
mkdir -p /root/scratch
export GOFLAGS=-mod=mod GOPROXY=off GOSUMDB=off GOTOOLCHAIN=local
W=$(mktemp -d /root/scratch/cov.XXXXXX); trap 'rm -rf "$W"' EXIT
sed "s#=> /repo#=> /repo#" /verif/sim/go.mod > "$W/c.mod"; cp /verif/sim/go.sum "$W/c.sum"
(cd /verif/sim && go build -modfile="$W/c.mod" -tags verif -cover -coverpkg=github.com/willabides/rjson/...,verifsim -o "$W/simcov" .) || exit 2
mkdir -p "$W/data" "$W/merged"
for id in C03 C07 C08 C09 C10 C12 C14 C15 C16 C19 C20; do
  GOCOVERDIR="$W/data" VERIF_OUT="$W/out" "$W/simcov" run $id -tier quick -workers 8 -no-evidence > /dev/null 2>&1
done
cd "$W" && go tool covdata merge -i=data -o=merged && go tool covdata percent -i=merged && go tool covdata textfmt -i=merged -o=cov.txt
python3 /verif/selftest/uncov.py skip_machine.rl.go array_handler_machine.rl.go object_handler_machine.rl.go misc_machines.rl.go read_machines.rl.go \
  | grep -v "goto _test_eof\|cs = [0-9]* goto\|_again\|_resume\|st_case_1:\|goto st_out\|if p++; p == pe {$"
