#!/usr/bin/env python3
"""mkmut.py <name> <file> <nth|all> <old> <new> [<file> <nth> <old> <new> ...]
Writes /verif/selftest/mutants/<name>.diff: a patch against /repo's working tree that
replaces the nth (1-based) occurrence of <old> by <new> in <file>."""
import sys, difflib, os
name = sys.argv[1]
args = sys.argv[2:]
out = []
while args:
    f, nth, old, new = args[:4]; args = args[4:]
    old = old.encode().decode('unicode_escape'); new = new.encode().decode('unicode_escape')
    src = open(os.path.join('/repo', f), encoding='utf-8').read()
    if nth == 'all':
        assert old in src, (f, old)
        dst = src.replace(old, new)
    else:
        n = int(nth); pos = -1
        for _ in range(n):
            pos = src.index(old, pos + 1)
        dst = src[:pos] + new + src[pos + len(old):]
    out += list(difflib.unified_diff(src.splitlines(True), dst.splitlines(True), 'a/' + f, 'b/' + f))
open('/verif/selftest/mutants/%s.diff' % name, 'w', encoding='utf-8').write(''.join(out))
print(name, sum(1 for l in out if l[:1] in '+-' and l[:3] not in ('+++', '---')), 'changed lines')
