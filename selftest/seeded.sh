#!/bin/bash
# usage: selftest/seeded.sh [id-glob]   runs, for every /verif/seeded/<id>/, the check of the property it breaks
# against a scratch copy with the patch applied, and prints detected / MISSED.
set -u
cd /verif/seeded || exit 0
for d in ${1:-*}/; do
  d=${d%/}
  prop=$(python3 -c "import json;print(json.load(open('$d/meta.json'))['property'])")
  tier=$(python3 -c "import json;print(json.load(open('$d/meta.json')).get('tier','quick'))")
  out=$(TAIL=400 /verif/selftest/mutant.sh "$d/patch.diff" "$prop" "$tier" 2>&1)
  if echo "$out" | grep -q "^VIOLATION property=$prop"; then
    echo "detected  $d ($prop $tier): $(echo "$out" | grep -m1 '^minimised to' | cut -c1-200)"
  else
    also=$(python3 -c "import json;print(' '.join(json.load(open('$d/meta.json')).get('also_run',[])))")
    hit=""
    for o in $also; do
      out2=$(TAIL=400 /verif/selftest/mutant.sh "$d/patch.diff" "$o" "$tier" 2>&1)
      if echo "$out2" | grep -q "^VIOLATION property=$o"; then hit="$o: $(echo "$out2" | grep -m1 '^minimised to' | cut -c1-160)"; break; fi
    done
    if [ -n "$hit" ]; then echo "detected* $d (not by $prop - see meta.json note; by $hit)"; else
    echo "MISSED    $d ($prop $tier): $(echo "$out" | tail -2 | head -1 | cut -c1-160)"; fi
  fi
done
