import re,collections,sys
unc=collections.defaultdict(list)
for l in open('cov.txt'):
    if not l.startswith('github.com/willabides/rjson'): continue
    m=re.match(r'(\S+):(\d+)\.(\d+),(\d+)\.(\d+) (\d+) (\d+)',l)
    if not m: continue
    f,sl,sc,el,ec,n,c=m.groups()
    if int(c)==0: unc[f.split('/')[-1]].append((int(sl),int(el)))
for f in sys.argv[1:]:
    src=open('/repo/'+f).read().split('\n')
    out=[]
    for sl,el in sorted(unc[f]):
        text=' '.join(x.strip() for x in src[sl-1:el])
        if re.fullmatch(r'(case \d+: )?goto st(_case)?_?\d+( .*)?',text): continue
        if re.match(r'^(case \d+:\s*)?$',text): continue
        out.append((sl,el,text[:110]))
    print('==',f,len(out))
    for o in out: print('  %d-%d: %s'%o)
