#!/bin/bash
# Determinism self-test: for every check, N seeds are executed in many separate processes at
# GOMAXPROCS 1, 4 and 16; the per-run (trace hash, event count, verdict, fault counts) lines
# must be byte-identical everywhere. C19/C20 measure the allocator and are pinned to
# GOMAXPROCS=1 by design, so they are repeated at that setting only. C18 stage B is
# free-running by design and is not part of this test.
# usage: selftest/determinism.sh [runs-per-check (default 300)] [processes per setting (default 10)]
set -u
N="${1:-300}"; P="${2:-10}"
export GOFLAGS=-mod=mod GOPROXY=off GOSUMDB=off GOTOOLCHAIN=local
V=/verif
"$V/check" build >/dev/null || exit 2
T=$(mktemp -d /tmp/verif-det.XXXXXX); trap 'rm -rf "$T"' EXIT
# stage A binary for C18
(cd "$V/sim" && go build -o "$T/instrument" ./instrument) || exit 2
S="$T/yield"; "$T/instrument" /repo "$S" >/dev/null || exit 2
sed "s#=> /repo#=> $S#" "$V/sim/go.mod" > "$T/y.mod"; cp "$V/sim/go.sum" "$T/y.sum"
(cd "$V/sim" && go build -modfile="$T/y.mod" -tags "verif verifyield" -o "$T/sim-yield" .) || exit 2
rc=0
for id in C03 C07 C08 C09 C10 C12 C14 C15 C16 C18 C19 C20; do
  bin="$V/bin/sim"; [ $id = C18 ] && bin="$T/sim-yield"
  procs="1 4 16"; case $id in C19|C20) procs="1";; esac
  n=$N; case $id in C20) n=$((N/4));; esac
  i=0
  for gp in $procs; do
    for k in $(seq 1 $P); do
      i=$((i+1))
      ( VERIF_SEED=7 "$bin" hashes $id -from 0 -to $n -procs $gp > "$T/$id.$i.out" 2>"$T/$id.$i.err" ) &
      if [ $((i % 16)) -eq 0 ]; then wait; fi
    done
  done
  wait
  bad=0
  for f in "$T"/$id.*.out; do cmp -s "$T/$id.1.out" "$f" || { bad=$((bad+1)); echo "DIFF $id: $f"; diff "$T/$id.1.out" "$f" | head -4; }; done
  lines=$(wc -l < "$T/$id.1.out")
  viol=$(grep -c "VIOL\|HARNESS" "$T/$id.1.out")
  echo "$id: $i processes x $lines runs, differing outputs: $bad, non-ok verdicts: $viol"
  [ $bad -ne 0 ] && rc=1
  [ $viol -ne 0 ] && rc=1
done
exit $rc
