#!/bin/bash
# No-false-alarm self-test: every check, quick tier (or $TIER), on the unchanged tree, for several VERIF_SEED values.
# usage: selftest/clean.sh [seed ...]      (default seeds: 1 2 3)
mkdir -p /root/scratch
SEEDS="${@:-1 2 3}"
rc=0
for s in $SEEDS; do
  for id in C03 C07 C08 C09 C10 C12 C14 C15 C16 C18 C19 C20; do
    out=$(VERIF_SEED=$s VERIF_OUT=/root/scratch/cleanout /verif/check $id ${TIER:-quick} 2>&1); r=$?
    if [ $r -ne 0 ] || echo "$out" | grep -q "VIOLATION"; then echo "seed $s $id: rc=$r  <<< NOT CLEAN"; echo "$out" | tail -5; rc=1; else echo "seed $s $id: ok"; fi
  done
done
rm -rf /root/scratch/cleanout
exit $rc
