package main

import (
	"bytes"
	"fmt"

	"github.com/willabides/rjson"
)

// C16 — inputs never modified; buffers get append semantics; outputs own their memory.

type c16 struct{}

func init() { register(c16{}) }

func (c16) ID() string    { return "C16" }
func (c16) Level() string { return "fault_enumeration" }
func (c16) Procs() int    { return 2 }
func (c16) Budget(tier string) (int, int) {
	if tier == "thorough" {
		return 60000000, 600
	}
	return 50000, 90
}
func (c16) Rule() string {
	return "seeded histories of 1-8 operations. Appending functions (ReadStringBytes, UnescapeStringContent, StdLibCompatibleStringBytes) run with a dirty destination (fault D-dirty: existing contents of length 0/1/5/37 that are an ASCII pattern or end in the middle of a multi-byte UTF-8 sequence, poisoned spare capacity of 0,1,2,3,4,len-1,len,len+1,4*len+16,len+1024 bytes - all 40 combinations enumerated per (function, input) in the thorough tier) and with an empty one: success and prefix++result must agree. Scratch functions (ReadString, DecodeString) run with nil / empty / dirty / too-small scratch that is reused by later operations. Every exported function runs on inputs allocated with poisoned spare capacity whose whole [:cap] is compared afterwards (also after failing calls) and again after every later operation of the history (a later call sharing a scratch buffer or reader must not write to an earlier input either). Fault X-overwrite: after an operation returns, its input (incl. spare capacity), scratch and destination are overwritten; every string and tree returned so far is re-compared with its snapshot after every later step. Non-trivial: a fault fired; distinct = distinct hashes of (operation, document class, destination config, outcome) sequences."
}
func (c16) Assumptions() []string {
	return []string{"results of failing calls are not constrained (the property speaks of success)", "inputs are sampled (string tokens with every escape kind, raw invalid UTF-8, documents of all classes)"}
}
func (c16) Required(tier string) []string {
	return []string{"D-dirty", "X-overwrite", "dst-grew", "dst-fit-exactly", "escape-with-dirty-dst", "scratch-reused-by-later-call", "failing-call-input-checked", "tree-snapshot-rechecked", "dst-ends-mid-sequence-input-starts-with-continuation", "empty-container-returned-then-reader-reused", "earlier-input-rechecked", "M-guard", "thousands-of-never-seen-field-names", "long-token-appended-to-dirty-dst", "argument-tree-mutated-after-StdLibCompatible-copy", "G-gc"}
}

var dstPrefixLens = []int{0, 1, 5, 37}

// mkDst builds a destination slice for configuration cfg (0: nil): a
// recognisable prefix and poisoned spare capacity around the growth thresholds.
func mkDst(cfg, inLen int) []byte {
	if cfg <= 0 {
		return nil
	}
	cfg--
	pl := dstPrefixLens[cfg%4]
	spare := 0
	switch (cfg / 4) % 10 {
	case 0:
		spare = 0
	case 1:
		spare = 1
	case 2:
		spare = 2
	case 3:
		spare = 3
	case 4:
		spare = 4
	case 5:
		spare = inLen - 1
	case 6:
		spare = inLen
	case 7:
		spare = inLen + 1
	case 8:
		spare = 4*inLen + 16
	case 9:
		spare = inLen + 1024
	}
	if spare < 0 {
		spare = 0
	}
	// existing contents: a recognisable ASCII pattern, or (cfg > 40) contents that end in the
	// middle of a multi-byte UTF-8 sequence, which the bytes appended next could complete
	partial := [][]byte{nil, {0xe2, 0x82}, {0xe2}, {0xf0, 0x9f, 0x98}, {0xf0}, {0xc3}}[(cfg/40)%6]
	if len(partial) > pl {
		pl = len(partial)
	}
	b := make([]byte, pl+spare)
	for i := 0; i < pl; i++ {
		b[i] = byte(0x50 + i%16)
	}
	copy(b[pl-len(partial):pl], partial)
	for i := pl; i < len(b); i++ {
		b[i] = 0xEE
	}
	return b[:pl]
}

func genStringTokenDoc(r *Rand) Doc {
	cfg := &genCfg{esc: r.Pick(1, 2, 2), rawBad: r.Chance(1, 3)}
	var b bytes.Buffer
	if r.Chance(1, 5) {
		genWS(r, &b, &genCfg{ws: 2})
	}
	b.WriteByte('"')
	genStringContent(r, &b, cfg, []int{0, 1, 3, 8, 30, 200}[r.Intn(6)])
	b.WriteByte('"')
	out := withTrailer(r, b.Bytes())
	if r.Chance(1, 8) {
		out = mutateDoc(r, out)
	}
	return docOf(out, "string-token")
}

func genStringContentDoc(r *Rand) Doc {
	cfg := &genCfg{esc: r.Pick(1, 2, 2), rawBad: r.Chance(1, 3)}
	var b bytes.Buffer
	genStringContent(r, &b, cfg, []int{0, 1, 3, 8, 30, 200}[r.Intn(6)])
	out := b.Bytes()
	if r.Chance(1, 8) {
		out = mutateDoc(r, out)
	}
	return docOf(out, "string-content")
}

func genRawBytesDoc(r *Rand) Doc {
	n := r.Range(0, 60)
	var b bytes.Buffer
	if r.Chance(1, 3) {
		// starts with continuation bytes: the tail of a multi-byte sequence
		b.Write([][]byte{{0xac}, {0x82, 0xac}, {0x9f, 0x98, 0x80}, {0x98, 0x80}, {0xa9}, {0x80}}[r.Intn(6)])
	}
	for i := 0; i < n; i++ {
		switch r.Pick(4, 2, 2) {
		case 0:
			b.WriteByte(byte(0x20 + r.Intn(0x5f)))
		case 1:
			b.WriteString(rawUTF8[r.Intn(len(rawUTF8))])
		case 2:
			b.Write(rawBadBytes[r.Intn(len(rawBadBytes))])
		}
	}
	return docOf(b.Bytes(), "raw-bytes")
}

var c16Appenders = []string{"ReadStringBytes", "UnescapeStringContent", "StdLibCompatibleStringBytes"}
var c16Scratch = []string{"ReadString", "DecodeString"}

func c16DocFor(r *Rand, name string) Doc {
	switch name {
	case "ReadStringBytes", "ReadString", "DecodeString":
		if r.Chance(1, 10) {
			return genDoc(r, "tiny")
		}
		if r.Chance(1, 8) {
			// long tokens: the branches behind size thresholds (256 .. 64 Ki, plain run first)
			return docOf(withTrailer(r, genLongStringToken(r)), "long-string-token")
		}
		return genStringTokenDoc(r)
	case "UnescapeStringContent":
		return genStringContentDoc(r)
	case "StdLibCompatibleStringBytes", "StdLibCompatibleString":
		return genRawBytesDoc(r)
	}
	if (len(name) > 3 && name[:3] == "VR.") || name == "ReadObject" || name == "ReadArray" || name == "ReadValue" {
		if r.Chance(1, 2) {
			// small and empty containers: what a reader might be tempted to recycle
			small := []string{"{}", "[]", " {} ", "[ ]", `{"a":1}`, `[1]`, `{"a":{}}`, `[[]]`, `{"k":"v","l":[1,2]}`, `[{"a":"\n"}]`, `"str"`, `"s\tt"`}
			return docOf([]byte(small[r.Intn(len(small))]), "small-container")
		}
	}
	switch r.Pick(3, 3, 1, 2) {
	case 0:
		return genDoc(r, "tiny")
	case 1:
		return genDoc(r, "small")
	case 2:
		return genDoc(r, "medium")
	}
	return genMutated(r, "small")
}

func (c16) Gen(r *Rand, sc *Scenario, tier string) {
	var ops []Op
	if tier == "thorough" && sc.Index%8 == 0 {
		// all 40 destination configurations for one (function, input)
		name := c16Appenders[r.Intn(3)]
		sc.Docs = []Doc{c16DocFor(r, name)}
		style := 40 * r.Intn(6)
		for cfg := 1 + style; cfg <= 40+style; cfg++ {
			ops = append(ops, Op{Kind: name, Doc: 0, B: cfg, C: r.Intn(2)})
		}
		sc.Tasks = [][]Op{ops}
		return
	}
	if r.Chance(1, 40) {
		// one reader, 2-4 documents with thousands of never-seen field names each; every tree is kept
		base := 0
		for i, n := 0, r.Range(2, 4); i < n; i++ {
			k := []int{3000, 5000, 9000}[r.Intn(3)]
			sc.Docs = append(sc.Docs, genDistinctKeysDoc(r, base, k))
			base += k
			ops = append(ops, Op{Kind: []string{"VR.ReadValue", "VR.ReadObject", "VR.ReadArray", "ReadValue"}[r.Pick(4, 1, 1, 2)], Doc: i})
		}
		sc.Tasks = [][]Op{ops}
		return
	}
	if r.Chance(1, 8) {
		// one reader, several direct reads of small and empty containers in a row
		n := r.Range(2, 5)
		for i := 0; i < n; i++ {
			name := []string{"VR.ReadObject", "VR.ReadArray", "VR.ReadValue"}[r.Intn(3)]
			small := []string{"{}", "[]", " {} ", "[ ]", `{"a":1}`, `[1]`, `{"a":{}}`, `[[]]`, `{"k":"v","l":[1,2]}`, `[{"a":"\n"}]`, `{"x":[],"y":{}}`, `[1,2,3]`}
			sc.Docs = append(sc.Docs, docOf([]byte(small[r.Intn(len(small))]), "small-container"))
			ops = append(ops, Op{Kind: name, Doc: i, C: r.Intn(2)})
		}
		sc.Tasks = [][]Op{ops}
		return
	}
	nops := []int{1, 2, 3, 5, 8}[r.Intn(5)]
	faultFree := r.Chance(1, 6)
	all := apiNames(nil)
	for i := 0; i < nops; i++ {
		var name string
		switch r.Pick(4, 3, 3) {
		case 0:
			name = c16Appenders[r.Intn(3)]
		case 1:
			name = c16Scratch[r.Intn(2)]
		default:
			name = all[r.Intn(len(all))]
		}
		sc.Docs = append(sc.Docs, c16DocFor(r, name))
		op := Op{Kind: name, Doc: i, Tape: genDecisionTape(r, r.Range(0, 12), true)}
		if !faultFree {
			op.B = r.Range(1, 40)
			if r.Chance(1, 3) {
				op.B = r.Range(1, 240)
			}
			op.C = r.Intn(2) // overwrite after return
			if r.Chance(1, 4) {
				op.C |= 2 // read-only input in front of an inaccessible page
			}
			if r.Chance(1, 5) {
				op.B = 0
			}
		}
		ops = append(ops, op)
	}
	sc.Tasks = [][]Op{ops}
	if r.Chance(1, 30) && len(ops) <= 12 {
		sc.Cfg["gc-between-calls"] = 1
	}
}

// forcedCopy returns a string that shares no memory with s.
func forcedCopy(s string) string { return string(append([]byte(nil), s...)) }

// deepSnap deep-copies a tree including the bytes of every string and key.
func deepSnap(a interface{}) interface{} {
	switch x := a.(type) {
	case string:
		return forcedCopy(x)
	case []interface{}:
		if x == nil {
			return []interface{}(nil)
		}
		out := make([]interface{}, len(x))
		for i := range x {
			out[i] = deepSnap(x[i])
		}
		return out
	case map[string]interface{}:
		if x == nil {
			return map[string]interface{}(nil)
		}
		out := make(map[string]interface{}, len(x))
		for k, v := range x {
			out[forcedCopy(k)] = deepSnap(v)
		}
		return out
	}
	return a
}

type kept struct {
	live, snap interface{}
	where      string
}

// safePoison is poison for memory the library handed back: false if writing to it faults.
func safePoison(b []byte, v byte) (ok bool) {
	defer panicOnFault()()
	defer func() {
		if recover() != nil {
			ok = false
		}
	}()
	poison(b, v)
	return true
}

func poison(b []byte, v byte) {
	full := b[:cap(b)]
	for i := range full {
		full[i] = v
	}
}

func (c16) Exec(sc *Scenario, st *Stats) *Violation {
	pool := newSimPool(nil, nil)
	pool.install()
	defer uninstallPool()
	var keptVals []kept
	type keptInput struct {
		data, snap []byte
		where      string
	}
	var keptInputs []keptInput
	var scratch []byte // reused across the run's scratch-taking operations
	scratchUses := 0
	reader := &rjson.ValueReader{}
	tg := &targets{}
	for oi, op := range sc.Tasks[0] {
		gcBetween(sc, st, oi)
		d := sc.Docs[op.Doc]
		viol := func(class, detail string) *Violation {
			return &Violation{Class: class, Task: 0, Op: oi, Sig: "C16/" + class + "/" + op.Kind,
				Detail: fmt.Sprintf("%s on %q dst-config %d: %s", op.Kind, clip(string(d.Bytes()), 80), op.B, detail)}
		}
		const spare = 24
		data := d.BytesSpare(spare)
		guarded := false
		if op.C&2 != 0 && len(d.Tail) == 0 {
			// read-only input that ends at a page boundary in front of an inaccessible page
			if g, ok := theGuardRing.place(d.Bytes()); ok {
				data, guarded = g, true
				st.fault("M-guard")
			}
		}
		snapIn := append([]byte(nil), data[:cap(data)]...)
		st.ev(op.Kind)
		st.ev(d.Class)
		st.evi("cfg", op.B)

		x := &opCtx{st: st, tape: NewTape(op.Tape), reader: reader, tg: tg}
		isAppender := op.Kind == "ReadStringBytes" || op.Kind == "UnescapeStringContent" || op.Kind == "StdLibCompatibleStringBytes"
		isScratch := op.Kind == "ReadString" || op.Kind == "DecodeString"
		var prefix []byte
		origCap := 0
		if isAppender {
			x.dst = mkDst(op.B, len(data))
			origCap = cap(x.dst)
			if op.B > 40 && len(data) > 0 && data[0] >= 0x80 && data[0] < 0xc0 {
				st.probe("dst-ends-mid-sequence-input-starts-with-continuation")
			}
			prefix = append([]byte(nil), x.dst...)
			if op.B != 0 {
				st.fault("D-dirty")
			}
		}
		if isScratch {
			switch {
			case op.B == 0:
				x.scratch = nil
			default:
				if op.B%5 == 1 {
					scratch = mkDst(op.B, len(data)) // fresh dirty scratch with contents
				}
				if scratchUses > 0 {
					st.probe("scratch-reused-by-later-call")
				}
				// scratch keeps whatever the last call left in it, plus poison beyond len
				x.scratch = &scratch
				scratchUses++
				st.fault("D-dirty")
			}
		}
		tgBefore := *tg
		if d.Class == "many-distinct-keys" {
			st.probe("thousands-of-never-seen-field-names")
		}
		if d.Class == "long-string-token" && isAppender && op.B != 0 {
			st.probe("long-token-appended-to-dirty-dst")
		}
		if d.Class == "small-container" && oi > 0 {
			st.probe("empty-container-returned-then-reader-reused")
		}
		out := runAPI(op.Kind, x, data)
		if out.Panic != "" {
			if fault, inside := faultIn(out.Panic, data); guarded && fault && inside {
				return viol("input-modified", "the call wrote into its (read-only mapped) input, even if only temporarily: "+clip(out.Panic, 120))
			}
			// totality belongs to C10; but the input must be intact even so
			if !bytes.Equal(snapIn, data[:cap(data)]) {
				return viol("input-modified", "input bytes changed during a call that panicked")
			}
			continue
		}
		st.evi("ok", b2i(out.OK))
		// 1. the input, including its spare capacity, is untouched
		if !bytes.Equal(snapIn, data[:cap(data)]) {
			i := 0
			for i < len(snapIn) && snapIn[i] == data[:cap(data)][i] {
				i++
			}
			return viol("input-modified", fmt.Sprintf("input byte %d (input length %d, capacity %d) changed from %#x to %#x", i, len(data), cap(data), snapIn[i], data[:cap(data)][i]))
		}
		if !out.OK {
			st.probe("failing-call-input-checked")
		}
		// 2. append semantics
		if isAppender {
			base := d.Bytes()
			y := &opCtx{st: st, tape: NewTape(op.Tape), reader: reader, tg: tg, quiet: true}
			ref := runAPI(op.Kind, y, base)
			if ref.Panic == "" {
				if out.OK != ref.OK {
					return viol("dst-changes-verdict", fmt.Sprintf("success=%v with this destination, %v with an empty one", out.OK, ref.OK))
				}
				if out.OK {
					if out.P != ref.P {
						return viol("dst-changes-offset", fmt.Sprintf("offset %d with this destination, %d with an empty one", out.P, ref.P))
					}
					want := append(append([]byte(nil), prefix...), y.dst...)
					if !bytes.Equal(x.dst, want) {
						return viol("append-semantics", fmt.Sprintf("returned %q, want existing contents %q followed by %q", clip(string(x.dst), 120), prefix, clip(string(y.dst), 80)))
					}
					if op.B != 0 && cap(x.dst) > origCap {
						st.probe("dst-grew")
					}
					if op.B != 0 && origCap > 0 && len(x.dst) == origCap {
						st.probe("dst-fit-exactly")
					}
					if op.B != 0 && bytes.IndexByte(base, '\\') >= 0 {
						st.probe("escape-with-dirty-dst")
					}
				}
			}
		}
		// 3. scratch independence
		if isScratch && x.scratch != nil {
			base := d.Bytes()
			tg2 := tgBefore
			y := &opCtx{st: st, tape: NewTape(op.Tape), reader: reader, tg: &tg2, quiet: true}
			ref := runAPI(op.Kind, y, base)
			if ref.Panic == "" {
				if out.OK != ref.OK || (out.OK && (out.P != ref.P || !eqVal(out.Val, ref.Val))) {
					return viol("scratch-changes-result", fmt.Sprintf("with this scratch buffer: ok=%v p=%d val=%s; with none: ok=%v p=%d val=%s", out.OK, out.P, descVal(out.Val), ref.OK, ref.P, descVal(ref.Val)))
				}
			}
		}
		// 4. ownership of returned strings and trees
		if out.OK {
			var live interface{}
			switch op.Kind {
			case "ReadString", "StdLibCompatibleString", "ReadValue", "ReadObject", "ReadArray", "VR.ReadValue", "VR.ReadObject", "VR.ReadArray", "StdLibCompatibleTree":
				live = out.Val
			case "DecodeString":
				live = tg.s
			}
			if live != nil {
				keptVals = append(keptVals, kept{live: live, snap: deepSnap(live), where: fmt.Sprintf("op %d %s", oi, op.Kind)})
			}
			if op.Kind == "StdLibCompatibleTree" && x.srcTree != nil && live != nil {
				// the helper's argument is a "later change to the input" away from being modified by its
				// owner: overwrite every element and member of the argument tree, at every depth; the
				// returned copy (snapshot taken above, re-compared below) must not notice
				scrubTree(x.srcTree)
				st.probe("argument-tree-mutated-after-StdLibCompatible-copy")
			}
		}
		// the input stays alive; a later call (sharing a scratch buffer or a reader with this one) must not write to it either
		ki := keptInput{data: data, snap: snapIn, where: fmt.Sprintf("op %d %s", oi, op.Kind)}
		if guarded {
			// the arena will be reused for a later input (that is a "later change to the input", which
			// returned values must survive); the bytes themselves are read-only, nothing to re-check
			ki = keptInput{where: ki.where}
		}
		if op.C&1 == 1 && !guarded {
			st.fault("X-overwrite")
			poison(data, 0x3F)
			ki.snap = append([]byte(nil), data[:cap(data)]...)
			// the caller's own scratch / destination: if writing to them faults, the library has made
			// them point into a (read-only mapped) input - the caller's next use would write into it
			if x.scratch != nil && !safePoison(*x.scratch, 0x3E) {
				return viol("input-modified", "the scratch buffer the call handed back lies inside a (read-only mapped) input: the caller's next use of its own scratch writes into that input")
			}
			if isAppender && x.dst != nil && !safePoison(x.dst, 0x3D) {
				return viol("input-modified", "the destination the call handed back lies inside a (read-only mapped) input")
			}
		}
		for _, k := range keptInputs {
			st.probe("earlier-input-rechecked")
			if !bytes.Equal(k.snap, k.data[:cap(k.data)]) {
				return viol("input-modified", fmt.Sprintf("the input of %s was modified by this later call", k.where))
			}
		}
		keptInputs = append(keptInputs, ki)
		for _, k := range keptVals {
			if _, isTree := k.live.(map[string]interface{}); isTree {
				st.probe("tree-snapshot-rechecked")
			} else if _, isArr := k.live.([]interface{}); isArr {
				st.probe("tree-snapshot-rechecked")
			}
			if !eqVal(k.live, k.snap) {
				return viol("returned-value-changed", fmt.Sprintf("value returned by %s changed afterwards: now %s, was %s", k.where, descVal(k.live), descVal(k.snap)))
			}
		}
	}
	return nil
}

// scrubTree overwrites, in place and at every depth, every element of every slice and every member
// of every map of a tree the caller owns.
func scrubTree(v interface{}) {
	switch t := v.(type) {
	case []interface{}:
		for i := range t {
			scrubTree(t[i])
			t[i] = "SCRUBBED"
		}
	case map[string]interface{}:
		for k := range t {
			scrubTree(t[k])
			t[k] = "SCRUBBED"
		}
	}
}
