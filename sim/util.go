package main

import (
	"encoding/binary"
	"fmt"
	"hash/fnv"
	"math"
	"sort"
)

// Rand is the only source of randomness in the simulator. It is a splitmix64
// generator, written out here so that a seed means the same thing under every
// Go release. It is used in the *generate* phase only; exec never sees one.
type Rand struct{ s uint64 }

func splitmix(x uint64) uint64 {
	x += 0x9e3779b97f4a7c15
	z := x
	z = (z ^ (z >> 30)) * 0xbf58476d1ce4e5b9
	z = (z ^ (z >> 27)) * 0x94d049bb133111eb
	return z ^ (z >> 31)
}

func NewRand(seed uint64) *Rand { return &Rand{s: seed} }

func (r *Rand) Uint64() uint64 {
	r.s += 0x9e3779b97f4a7c15
	z := r.s
	z = (z ^ (z >> 30)) * 0xbf58476d1ce4e5b9
	z = (z ^ (z >> 27)) * 0x94d049bb133111eb
	return z ^ (z >> 31)
}

// Intn returns a value in [0,n). n<=0 gives 0.
func (r *Rand) Intn(n int) int {
	if n <= 1 {
		return 0
	}
	return int(r.Uint64() % uint64(n))
}

// Range returns a value in [lo,hi].
func (r *Rand) Range(lo, hi int) int {
	if hi <= lo {
		return lo
	}
	return lo + r.Intn(hi-lo+1)
}

// Chance is true with probability num/den.
func (r *Rand) Chance(num, den int) bool { return r.Intn(den) < num }

func (r *Rand) Float() float64 { return float64(r.Uint64()>>11) / float64(1<<53) }

// Pick returns an index according to integer weights.
func (r *Rand) Pick(weights ...int) int {
	t := 0
	for _, w := range weights {
		t += w
	}
	if t <= 0 {
		return 0
	}
	x := r.Intn(t)
	for i, w := range weights {
		if x < w {
			return i
		}
		x -= w
	}
	return len(weights) - 1
}

// runSeed derives the seed of run i of a batch from the batch seed and the
// property id: seed_i = splitmix64(VERIF_SEED, property, i).
func runSeed(batch uint64, prop string, i int) uint64 {
	h := fnv.New64a()
	h.Write([]byte(prop))
	return splitmix(splitmix(batch^h.Sum64()) + uint64(i)*0x632be59bd9b4e019)
}

// Hasher accumulates the abstract trace of a run.
type Hasher struct{ h uint64 }

func NewHasher() *Hasher { return &Hasher{h: 0xcbf29ce484222325} }

func (h *Hasher) Str(s string) {
	for i := 0; i < len(s); i++ {
		h.h ^= uint64(s[i])
		h.h *= 0x100000001b3
	}
	h.h ^= 0xff
	h.h *= 0x100000001b3
}

func (h *Hasher) Int(v int) {
	var b [8]byte
	binary.LittleEndian.PutUint64(b[:], uint64(v))
	for _, c := range b {
		h.h ^= uint64(c)
		h.h *= 0x100000001b3
	}
}

func (h *Hasher) Sum() uint64 { return h.h }

func sortedKeys(m map[string]int) []string {
	ks := make([]string, 0, len(m))
	for k := range m {
		ks = append(ks, k)
	}
	sort.Strings(ks)
	return ks
}

func addCounts(dst, src map[string]int) {
	for k, v := range src {
		dst[k] += v
	}
}

func clip(s string, n int) string {
	if len(s) <= n {
		return s
	}
	return s[:n] + fmt.Sprintf("…(+%d bytes)", len(s)-n)
}

const (
	maxInt = math.MaxInt
	minInt = math.MinInt
)
