package main

import (
	"bytes"
	"encoding/base64"
	"encoding/binary"
	"encoding/json"
	"flag"
	"fmt"
	"io"
	"os"
	"os/exec"
	"path/filepath"
	"regexp"
	"runtime"
	"runtime/debug"
	"sort"
	"strconv"
	"strings"
	"sync"
	"sync/atomic"
	"time"
)

// exit codes: 0 property held; 1 violation (with VIOLATION line); 2 machinery trouble.

type workerResult struct {
	Runs         int            `json:"runs"`
	NonTrivial   int            `json:"nontrivial"`
	FaultFree    int            `json:"fault_free"`
	Events       int            `json:"events"`
	Hashes       string         `json:"hashes"` // base64 of packed uint64 trace hashes of non-trivial runs
	HashesCapped bool           `json:"hashes_capped,omitempty"`
	Faults       map[string]int `json:"faults"`
	Probes       map[string]int `json:"probes"`
	Known        map[string]int `json:"known,omitempty"`
	Violation    *Violation     `json:"violation,omitempty"`
	VIndex       int            `json:"vindex"`
	Hang         bool           `json:"hang,omitempty"`
	HangIndex    int            `json:"hang_index,omitempty"`
	Harness      string         `json:"harness,omitempty"`
	Samples      []*Scenario    `json:"samples,omitempty"`
	WallS        float64        `json:"wall_s"`
}

func verifDir() string {
	if d := os.Getenv("VERIF_DIR"); d != "" {
		return d
	}
	return "/verif"
}

// outDir is where evidence and replay files go: /verif unless a self-test redirects it.
func outDir() string {
	if d := os.Getenv("VERIF_OUT"); d != "" {
		return d
	}
	return verifDir()
}

func main() {
	if len(os.Args) < 2 {
		fmt.Fprintln(os.Stderr, "usage: sim run|worker|exec1|replay|gen|hashes <ID> ...")
		os.Exit(2)
	}
	cmd := os.Args[1]
	switch cmd {
	case "run":
		os.Exit(cmdRun(os.Args[2:]))
	case "worker":
		os.Exit(cmdWorker(os.Args[2:]))
	case "exec1":
		os.Exit(cmdExec1(os.Args[2:]))
	case "replay":
		os.Exit(cmdReplay(os.Args[2:]))
	case "gen":
		os.Exit(cmdGen(os.Args[2:]))
	case "hashes":
		os.Exit(cmdHashes(os.Args[2:]))
	case "cold1":
		os.Exit(cmdCold1(os.Args[2:]))
	case "merge-evidence":
		os.Exit(cmdMergeEvidence(os.Args[2:]))
	case "list":
		fmt.Println(strings.Join(checkIDs(), " "))
		os.Exit(0)
	}
	fmt.Fprintln(os.Stderr, "unknown command", cmd)
	os.Exit(2)
}

func getCheck(id string) Check {
	c, ok := registry[id]
	if !ok {
		fmt.Fprintf(os.Stderr, "no check %q in this binary (have: %s)\n", id, strings.Join(checkIDs(), " "))
		os.Exit(2)
	}
	return c
}

func envSeed() uint64 {
	if s := os.Getenv("VERIF_SEED"); s != "" {
		if v, err := strconv.ParseUint(s, 10, 64); err == nil {
			return v
		}
		if v, err := strconv.ParseInt(s, 10, 64); err == nil {
			return uint64(v)
		}
	}
	return 1
}

// safeExec runs one scenario under recover; a harnessError is machinery trouble.
func safeExec(c Check, sc *Scenario, st *Stats) (v *Violation, harness string) {
	defer func() {
		if r := recover(); r != nil {
			if he, ok := r.(harnessError); ok {
				harness = string(he)
				return
			}
			harness = fmt.Sprintf("panic inside the harness: %v\n%s", r, debug.Stack())
		}
	}()
	return c.Exec(sc, st), ""
}

// ---------------------------------------------------------------- worker

var curRun atomic.Int64
var curStart atomic.Int64

func startWatchdog(limit time.Duration, onHang func(idx int)) {
	go func() {
		for {
			time.Sleep(200 * time.Millisecond)
			st := curStart.Load()
			if st == 0 {
				continue
			}
			if time.Since(time.Unix(0, st)) > limit {
				onHang(int(curRun.Load()))
			}
		}
	}()
}

func cmdWorker(args []string) int {
	fs := flag.NewFlagSet("worker", flag.ExitOnError)
	seed := fs.Uint64("seed", 1, "")
	tier := fs.String("tier", "quick", "")
	w := fs.Int("w", 0, "")
	of := fs.Int("of", 1, "")
	runs := fs.Int("runs", 100, "")
	secs := fs.Int("secs", 30, "")
	hang := fs.Int("hang", 60, "seconds one run may take")
	known := fs.String("known", "", "comma separated open known-finding signatures")
	id := args[0]
	fs.Parse(args[1:])
	c := getCheck(id)
	// GOMAXPROCS varies with the worker slot (it must not matter to any result: the determinism
	// self-test compares traces at 1, 4 and 16); checks that measure the allocator are pinned to 1
	runtime.GOMAXPROCS([]int{2, 3, 5, 16}[*w%4])
	if c.Procs() == 1 {
		runtime.GOMAXPROCS(1)
	} else if c.Procs() >= 16 {
		runtime.GOMAXPROCS(c.Procs())
	}
	knownSet := map[string]bool{}
	for _, k := range strings.Split(*known, ",") {
		if k != "" {
			knownSet[k] = true
		}
	}
	res := workerResult{Faults: map[string]int{}, Probes: map[string]int{}, Known: map[string]int{}, VIndex: -1}
	var outMu sync.Mutex
	emit := func() {
		outMu.Lock()
		b, _ := json.Marshal(res)
		os.Stdout.Write(b)
		os.Stdout.Write([]byte("\n"))
	}
	startWatchdog(time.Duration(*hang)*time.Second, func(idx int) {
		res.Hang = true
		res.HangIndex = idx
		emit()
		os.Exit(3)
	})
	t0 := time.Now()
	deadline := t0.Add(time.Duration(*secs) * time.Second)
	traceIdx := os.Getenv("VERIF_TRACE_IDX") != ""
	var hashes []byte
	for i := *w; i < *runs; i += *of {
		if time.Now().After(deadline) {
			break
		}
		sc := genScenario(c, *seed, i, *tier)
		st := NewStats()
		if traceIdx && id == "C10" {
			// a scenario that kills the process (stack overflow, fatal runtime error) leaves its index behind
			fmt.Fprintf(os.Stderr, "@idx %d\n", i)
		}
		curRun.Store(int64(i))
		curStart.Store(time.Now().UnixNano())
		v, harness := safeExec(c, sc, st)
		curStart.Store(0)
		if harness != "" {
			res.Harness = fmt.Sprintf("run %d (seed %d): %s", i, sc.Seed, harness)
			res.WallS = time.Since(t0).Seconds()
			emit()
			return 2
		}
		res.Runs++
		res.Events += st.Events
		addCounts(res.Faults, st.Faults)
		addCounts(res.Probes, st.Probes)
		if len(st.Faults) == 0 {
			res.FaultFree++
		}
		if st.NonTrivial {
			res.NonTrivial++
			// trace hashes are kept for the exact distinct count; beyond 4 M per worker (32 MB) they are
			// only counted, and the reported number of distinct traces becomes a lower bound
			if len(hashes) < 32<<20 {
				var hb [8]byte
				binary.LittleEndian.PutUint64(hb[:], st.Hash.Sum())
				hashes = append(hashes, hb[:]...)
			} else {
				res.HashesCapped = true
			}
		}
		if len(res.Samples) < 2 && sc.totalDocBytes() < 600 && st.NonTrivial && i >= *of*3 {
			res.Samples = append(res.Samples, sc)
		}
		if v != nil {
			if knownSet[v.Sig] {
				res.Known[v.Sig]++
				continue
			}
			res.Violation = v
			res.VIndex = i
			break
		}
	}
	res.Hashes = base64.StdEncoding.EncodeToString(hashes)
	res.WallS = time.Since(t0).Seconds()
	emit()
	return 0
}

// ---------------------------------------------------------------- exec1

type exec1Result struct {
	Violation *Violation `json:"violation,omitempty"`
	Harness   string     `json:"harness,omitempty"`
	Hash      uint64     `json:"hash"`
	Events    int        `json:"events"`
}

func cmdExec1(args []string) int {
	id := args[0]
	c := getCheck(id)
	if c.Procs() == 1 {
		runtime.GOMAXPROCS(1)
	}
	in, err := io.ReadAll(os.Stdin)
	if err != nil {
		return 2
	}
	var sc Scenario
	if err := json.Unmarshal(in, &sc); err != nil {
		fmt.Fprintln(os.Stderr, "exec1: bad scenario:", err)
		return 2
	}
	for _, pre := range sc.Prelude {
		// earlier scenarios of the same process: executed for the state they leave behind
		safeExec(c, pre, NewStats())
	}
	st := NewStats()
	v, harness := safeExec(c, &sc, st)
	out, _ := json.Marshal(exec1Result{Violation: v, Harness: harness, Hash: st.Hash.Sum(), Events: st.Events})
	os.Stdout.Write(out)
	if harness != "" {
		return 2
	}
	return 0
}

// execFresh runs a scenario in a fresh process. A process that does not finish
// within the limit is reported as a violation of class "hang" only when the
// check is one that owns termination (C10); otherwise as machinery trouble.
func execFresh(id string, sc *Scenario, limit time.Duration) (*Violation, string) {
	cmd := exec.Command(os.Args[0], "exec1", id)
	cmd.Env = append(os.Environ(), "GORACE=halt_on_error=1 exitcode=66", "VERIF_TRACE_IDX=")
	cmd.Stdin = bytes.NewReader(sc.JSON())
	var out, errb bytes.Buffer
	cmd.Stdout = &out
	cmd.Stderr = &errb
	if err := cmd.Start(); err != nil {
		return nil, "cannot start exec1: " + err.Error()
	}
	done := make(chan error, 1)
	go func() { done <- cmd.Wait() }()
	select {
	case <-done:
	case <-time.After(limit):
		cmd.Process.Kill()
		<-done
		return &Violation{Class: "hang", Task: -1, Op: -1, Sig: "hang", Detail: fmt.Sprintf("no result within %v", limit)}, ""
	}
	if _, report, ok := raceReport(errb.String()); ok {
		return &Violation{Class: "data-race", Task: -1, Op: -1, Sig: "C18/data-race", Detail: report}, ""
	}
	var r exec1Result
	if err := json.Unmarshal(out.Bytes(), &r); err != nil {
		// the process died: a fatal error (stack overflow, concurrent map write) is not recoverable in-process
		msg := clip(errb.String(), 400)
		return &Violation{Class: "crash", Task: -1, Op: -1, Sig: "crash", Detail: "process died: " + msg}, ""
	}
	if r.Harness != "" {
		return nil, r.Harness
	}
	return r.Violation, ""
}

// ---------------------------------------------------------------- run

type knownFinding struct {
	Property string `json:"property"`
	Status   string `json:"status"` // open | fixed
	Sig      string `json:"sig"`
	Commit   string `json:"commit,omitempty"`
	What     string `json:"what"`
}

func loadKnown(prop string) (open []knownFinding) {
	b, err := os.ReadFile(filepath.Join(verifDir(), "known_findings.json"))
	if err != nil {
		return nil
	}
	var f struct {
		Findings []knownFinding `json:"findings"`
	}
	if err := json.Unmarshal(b, &f); err != nil {
		fmt.Fprintln(os.Stderr, "known_findings.json:", err)
		os.Exit(2)
	}
	for _, k := range f.Findings {
		if k.Property == prop && k.Status == "open" {
			open = append(open, k)
		}
	}
	return open
}

func cmdRun(args []string) int {
	fs := flag.NewFlagSet("run", flag.ExitOnError)
	tier := fs.String("tier", "quick", "")
	workers := fs.Int("workers", 16, "")
	runsOverride := fs.Int("runs", 0, "")
	secsOverride := fs.Int("secs", 0, "")
	noEvidence := fs.Bool("no-evidence", false, "")
	split := fs.Int("split", 1, "run each worker slot's share in this many successive fresh processes")
	id := args[0]
	fs.Parse(args[1:])
	c := getCheck(id)
	seed := envSeed()
	runs, secs := c.Budget(*tier)
	if *runsOverride > 0 {
		runs = *runsOverride
	}
	if *secsOverride > 0 {
		secs = *secsOverride
	}
	fmt.Printf("property=%s tier=%s VERIF_SEED=%d runs<=%d secs<=%d workers=%d\n", id, *tier, seed, runs, secs, *workers)
	t0 := time.Now()
	open := loadKnown(id)
	var sigs []string
	for _, k := range open {
		sigs = append(sigs, k.Sig)
	}
	hangSecs := 60
	if *tier == "thorough" {
		hangSecs = 180
	}
	if *split < 1 {
		*split = 1
	}
	virt := *workers * *split
	results := make([]workerResult, virt)
	errs := make([]string, virt)
	var wg sync.WaitGroup
	slots := make(chan struct{}, *workers)
	perSecs := secs / *split
	if perSecs < 2 {
		perSecs = 2
	}
	for w := 0; w < virt; w++ {
		wg.Add(1)
		go func(w int) {
			defer wg.Done()
			slots <- struct{}{}
			defer func() { <-slots }()
			cmd := exec.Command(os.Args[0], "worker", id, "-seed", strconv.FormatUint(seed, 10), "-tier", *tier,
				"-w", strconv.Itoa(w), "-of", strconv.Itoa(virt), "-runs", strconv.Itoa(runs), "-secs", strconv.Itoa(perSecs),
				"-hang", strconv.Itoa(hangSecs), "-known", strings.Join(sigs, ","))
			var out, errb bytes.Buffer
			cmd.Stdout = &out
			cmd.Stderr = &errb
			cmd.Env = append(os.Environ(), "GOMAXPROCS=")
			if id == "C18B" {
				cmd.Env = append(cmd.Env, "VERIF_TRACE_IDX=1", "GORACE=halt_on_error=1 exitcode=66")
			}
			if id == "C10" {
				cmd.Env = append(cmd.Env, "VERIF_TRACE_IDX=1")
			}
			err := cmd.Run()
			line := bytes.TrimSpace(out.Bytes())
			if i := bytes.LastIndexByte(line, '\n'); i >= 0 {
				line = line[i+1:]
			}
			if jerr := json.Unmarshal(line, &results[w]); jerr != nil {
				results[w] = workerResult{VIndex: -1}
				if idx, report, ok := raceReport(errb.String()); ok {
					// the race detector halted the worker: the scenario in flight is the finding
					results[w].Violation = &Violation{Class: "data-race", Task: -1, Op: -1, Sig: "C18/data-race", Detail: report}
					results[w].VIndex = idx
				} else if m := idxRe.FindAllStringSubmatch(errb.String(), -1); id == "C10" && len(m) > 0 {
					// the worker process died (fatal runtime error: stack overflow, concurrent map write ...)
					// while this scenario was in flight: process safety is C10's; confirmed in a fresh process below
					idx, _ := strconv.Atoi(m[len(m)-1][1])
					results[w].Violation = &Violation{Class: "crash", Task: -1, Op: -1, Sig: "crash", Detail: "the worker process died: " + clip(lastFatal(errb.String()), 300)}
					results[w].VIndex = idx
				} else {
					errs[w] = fmt.Sprintf("worker %d: no result (%v): %s", w, err, clip(errb.String(), 2000))
				}
			}
		}(w)
	}
	wg.Wait()

	agg := workerResult{Faults: map[string]int{}, Probes: map[string]int{}, Known: map[string]int{}, VIndex: -1}
	distinct := map[uint64]struct{}{}
	for w, r := range results {
		if errs[w] != "" {
			// a worker that died without a result: for C10 a dead process is itself suspicious,
			// but without a scenario index nothing can be reported as a violation
			fmt.Fprintln(os.Stderr, errs[w])
			fmt.Println("MACHINERY: worker died without a result")
			return 2
		}
		if r.Harness != "" {
			fmt.Fprintln(os.Stderr, "harness self-check failed:", r.Harness)
			fmt.Println("MACHINERY: harness self-check failed (not a violation)")
			return 2
		}
		agg.Runs += r.Runs
		agg.NonTrivial += r.NonTrivial
		agg.FaultFree += r.FaultFree
		agg.Events += r.Events
		addCounts(agg.Faults, r.Faults)
		addCounts(agg.Probes, r.Probes)
		addCounts(agg.Known, r.Known)
		agg.HashesCapped = agg.HashesCapped || r.HashesCapped
		hb, _ := base64.StdEncoding.DecodeString(r.Hashes)
		for i := 0; i+8 <= len(hb); i += 8 {
			distinct[binary.LittleEndian.Uint64(hb[i:])] = struct{}{}
		}
		if len(agg.Samples) < 3 {
			agg.Samples = append(agg.Samples, r.Samples...)
		}
	}
	// lowest-index violation or hang
	type found struct {
		idx  int
		v    *Violation
		hang bool
	}
	var first *found
	for _, r := range results {
		if r.Violation != nil && (first == nil || r.VIndex < first.idx) {
			first = &found{idx: r.VIndex, v: r.Violation}
		}
		if r.Hang && (first == nil || r.HangIndex < first.idx) {
			first = &found{idx: r.HangIndex, hang: true}
		}
	}
	wall := time.Since(t0).Seconds()
	for _, k := range open {
		if agg.Known[k.Sig] > 0 {
			fmt.Printf("KNOWN-FINDING: property=%s %s (%d scenarios)\n", id, k.What, agg.Known[k.Sig])
		}
	}
	if first != nil {
		sc := genScenario(c, seed, first.idx, *tier)
		processHistory = func() []*Scenario {
			// the scenarios the same worker process executed before this one: same residue class of indices
			var idxs []int
			for j := first.idx - virt; j >= 0 && len(idxs) < 1500; j -= virt {
				idxs = append(idxs, j)
			}
			var pre []*Scenario
			for k := len(idxs) - 1; k >= 0; k-- {
				pre = append(pre, genScenario(c, seed, idxs[k], *tier))
			}
			return pre
		}
		return reportViolation(c, sc, first.v, first.hang, *tier, seed, agg, len(distinct), wall, *noEvidence)
	}
	// required faults / probes
	var missing []string
	for _, k := range c.Required(*tier) {
		if agg.Faults[k] == 0 && agg.Probes[k] == 0 {
			missing = append(missing, k)
		}
	}
	if !*noEvidence {
		writeEvidence(c, *tier, seed, agg, len(distinct), wall, 0)
	}
	fmt.Printf("runs=%d nontrivial=%d distinct_traces=%d fault_free_runs=%d events=%d wall=%.1fs runs/hour=%.0f\n",
		agg.Runs, agg.NonTrivial, len(distinct), agg.FaultFree, agg.Events, wall, float64(agg.Runs)/wall*3600)
	fmt.Printf("faults fired: %s\n", fmtCounts(agg.Faults))
	fmt.Printf("probes: %s\n", fmtCounts(agg.Probes))
	if len(missing) > 0 {
		fmt.Printf("MACHINERY: required fault kinds / probes never fired: %s\n", strings.Join(missing, ", "))
		return 2
	}
	if agg.Runs == 0 {
		fmt.Println("MACHINERY: no scenario was executed")
		return 2
	}
	fmt.Printf("OK property=%s held on everything explored\n", id)
	return 0
}

// propName maps a check id to the property it belongs to (C18B is stage B of C18).
func propName(id string) string {
	if id == "C18B" {
		return "C18"
	}
	return id
}

var idxRe = regexp.MustCompile(`@idx ([0-9]+)`)

// raceReport recognises a race-detector report in a process's stderr and
// returns the index of the scenario that was in flight.
func raceReport(stderr string) (idx int, report string, ok bool) {
	i := strings.Index(stderr, "WARNING: DATA RACE")
	if i < 0 {
		return 0, "", false
	}
	idx = -1
	if m := idxRe.FindAllStringSubmatch(stderr[:i], -1); len(m) > 0 {
		idx, _ = strconv.Atoi(m[len(m)-1][1])
	}
	lines := strings.Split(stderr[i:], "\n")
	if len(lines) > 40 {
		lines = lines[:40]
	}
	return idx, strings.Join(lines, "\n"), true
}

// lastFatal extracts the fatal-error line of a dead Go process from its stderr.
func lastFatal(stderr string) string {
	for _, key := range []string{"fatal error:", "runtime: goroutine stack exceeds", "panic:", "SIGSEGV"} {
		if i := strings.Index(stderr, key); i >= 0 {
			end := strings.IndexByte(stderr[i:], '\n')
			if end < 0 {
				end = len(stderr) - i
			}
			return stderr[i : i+end]
		}
	}
	return clip(stderr, 200)
}

func fmtCounts(m map[string]int) string {
	var parts []string
	for _, k := range sortedKeys(m) {
		parts = append(parts, fmt.Sprintf("%s=%d", k, m[k]))
	}
	return strings.Join(parts, " ")
}

func execLimit(id string) time.Duration {
	if id == "C10" {
		return 120 * time.Second
	}
	return 300 * time.Second
}

// processHistory returns the scenarios that ran before the violating one in its worker process.
var processHistory func() []*Scenario

// withHistory tries to reproduce a violation that does not show in a fresh process by replaying the
// worker's earlier scenarios first, and shrinks that history (most recent scenarios kept first).
func withHistory(id string, sc *Scenario, class string) *Scenario {
	if processHistory == nil {
		return nil
	}
	pre := processHistory()
	if len(pre) == 0 {
		return nil
	}
	try := func(p []*Scenario) bool {
		cand := sc.Clone()
		cand.Prelude = p
		v, harness := execFresh(id, cand, 10*time.Minute)
		return harness == "" && v != nil && v.Class == class
	}
	if !try(pre) {
		return nil
	}
	// shrink: suffixes first (state is usually left by a recent scenario), then drop chunks
	for len(pre) > 1 {
		half := pre[len(pre)/2:]
		if try(half) {
			pre = half
			continue
		}
		break
	}
	for chunk := len(pre) / 2; chunk >= 1; chunk /= 2 {
		for i := 0; i+chunk <= len(pre) && len(pre) > 1; {
			cand := append(append([]*Scenario(nil), pre[:i]...), pre[i+chunk:]...)
			if len(cand) > 0 && try(cand) {
				pre = cand
			} else {
				i += chunk
			}
		}
	}
	out := sc.Clone()
	out.Prelude = pre
	return out
}

func reportViolation(c Check, sc *Scenario, v *Violation, hang bool, tier string, seed uint64, agg workerResult, distinct int, wall float64, noEvidence bool) int {
	id := c.ID()
	if hang {
		// re-run the one in-flight scenario alone with a larger limit
		v2, harness := execFresh(id, sc, 10*time.Minute)
		if harness != "" {
			fmt.Println("MACHINERY:", harness)
			return 2
		}
		if v2 == nil {
			fmt.Printf("MACHINERY: scenario %d exceeded the per-run limit inside a worker but finishes alone; not a violation\n", sc.Index)
			return 2
		}
		if (v2.Class == "hang" || v2.Class == "crash") && id != "C10" {
			fmt.Printf("MACHINERY: scenario %d does not terminate (or kills the process) under %s; termination and process safety belong to C10 - not reported as a violation of %s\n", sc.Index, id, id)
			return 2
		}
		v = v2
	}
	fmt.Printf("violation in scenario %d (seed %d): %s\n", sc.Index, sc.Seed, v)
	if v.Class != "data-race" && v.Class != "hang" && id != "C18B" {
		// does it show in a fresh process at all? if not, it may need what earlier scenarios of the
		// same worker left behind in the process; the scenario is then minimised with that history
		v0, harness := execFresh(id, sc, execLimit(id))
		for i := 0; i < 4 && harness == "" && (v0 == nil || v0.Class != v.Class); i++ {
			// the code under test may have timing of its own (goroutines it starts itself): a violation that
			// shows in some executions of one scenario is still a violation; its replay says so
			v0, harness = execFresh(id, sc, execLimit(id))
			if v0 != nil && v0.Class == v.Class {
				fmt.Println("note: the violation does not show in every execution of this scenario - the code under test is not deterministic")
				sc.Cfg["reproduces-only-sometimes"] = 1
			}
		}
		if harness == "" && (v0 == nil || v0.Class != v.Class) {
			if h := withHistory(id, sc, v.Class); h != nil {
				fmt.Printf("the violation needs process-lifetime state: it reproduces in a fresh process after %d earlier scenario(s) of the same worker\n", len(h.Prelude))
				sc = h
			}
		}
	}
	min := minimise(c, sc, v)
	// confirm in a fresh process
	v3, harness := execFresh(id, min, execLimit(id))
	for i := 0; i < 6 && harness == "" && (v3 == nil || v3.Class != v.Class) && min.cfg("reproduces-only-sometimes") == 1; i++ {
		v3, harness = execFresh(id, min, execLimit(id))
	}
	if harness != "" {
		fmt.Println("MACHINERY:", harness)
		return 2
	}
	if v3 == nil || v3.Class != v.Class {
		// fall back to the unminimised scenario
		v3, _ = execFresh(id, sc, execLimit(id))
		min = sc
		if v3 == nil {
			// not reproducible alone: does it need what earlier scenarios left behind in the process?
			// (stage B of C18 is free-running: a result that does not recur there is retried, not explained)
			if id == "C18B" {
				for i := 0; i < 20 && v3 == nil; i++ {
					v3, _ = execFresh(id, sc, execLimit(id))
				}
			} else if h := withHistory(id, sc, v.Class); h != nil {
				min = h
				v3, _ = execFresh(id, min, 10*time.Minute)
				fmt.Printf("the violation needs process-lifetime state: it reproduces in a fresh process after %d earlier scenario(s) of the same worker\n", len(min.Prelude))
			}
		}
		if v3 == nil {
			fmt.Println("MACHINERY: violation does not reproduce in a fresh process, alone or after the worker's earlier scenarios (nondeterminism in the machinery)")
			return 2
		}
	}
	min.Expect = &Expect{Class: v3.Class, Task: v3.Task, Op: v3.Op, Sig: v3.Sig}
	min.Detail = v3.Detail
	dir := filepath.Join(outDir(), "replays")
	os.MkdirAll(dir, 0o755)
	path := filepath.Join(dir, fmt.Sprintf("%s-%d.json", id, sc.Seed))
	id = propName(id)
	if err := os.WriteFile(path, min.JSON(), 0o644); err != nil {
		fmt.Println("MACHINERY: cannot write replay:", err)
		return 2
	}
	if !noEvidence {
		writeEvidence(c, tier, seed, agg, distinct, wall, 1)
	}
	fmt.Printf("minimised to %d ops, %d document bytes: %s\n", min.numOps(), min.totalDocBytes(), v3)
	fmt.Printf("VIOLATION property=%s replay=%s\n", id, path)
	return 1
}

// ---------------------------------------------------------------- replay

func cmdReplay(args []string) int {
	id := args[0]
	c := getCheck(id)
	sc, err := loadScenario(args[1])
	if err != nil {
		fmt.Fprintln(os.Stderr, err)
		return 2
	}
	v, harness := execFresh(c.ID(), sc, execLimit(id))
	if sc.Expect != nil && (sc.Expect.Class == "data-race" || sc.cfg("reproduces-only-sometimes") == 1) {
		// stage B is not schedule-deterministic: the report needs both accesses to happen, try again
		for i := 0; i < 20 && v == nil && harness == ""; i++ {
			v, harness = execFresh(c.ID(), sc, execLimit(id))
		}
	}
	// a recorded violation that does not show at once is tried a few more times: the tree it was found
	// on may have timing of its own (goroutines it starts itself), which no replay file can pin down
	for i := 0; i < 5 && v == nil && harness == "" && sc.Expect != nil; i++ {
		v, harness = execFresh(c.ID(), sc, execLimit(id))
	}
	if harness != "" {
		fmt.Println("MACHINERY:", harness)
		return 2
	}
	id = propName(id)
	if v == nil {
		fmt.Printf("replay %s: no violation on this tree\n", args[1])
		return 0
	}
	fmt.Printf("replay %s: %s\n", args[1], v)
	if sc.Expect != nil && (sc.Expect.Class != v.Class || sc.Expect.Op != v.Op || sc.Expect.Task != v.Task) {
		fmt.Printf("note: recorded expectation was class=%s task=%d op=%d\n", sc.Expect.Class, sc.Expect.Task, sc.Expect.Op)
	}
	fmt.Printf("VIOLATION property=%s replay=%s\n", id, args[1])
	return 1
}

func cmdGen(args []string) int {
	fs := flag.NewFlagSet("gen", flag.ExitOnError)
	tier := fs.String("tier", "quick", "")
	idx := fs.Int("i", 0, "")
	id := args[0]
	fs.Parse(args[1:])
	c := getCheck(id)
	sc := genScenario(c, envSeed(), *idx, *tier)
	os.Stdout.Write(sc.JSON())
	fmt.Println()
	return 0
}

// cmdHashes prints "index hash events verdict" for a range of runs: the
// determinism self-test diffs this output across processes and GOMAXPROCS.
func cmdHashes(args []string) int {
	fs := flag.NewFlagSet("hashes", flag.ExitOnError)
	tier := fs.String("tier", "quick", "")
	from := fs.Int("from", 0, "")
	to := fs.Int("to", 200, "")
	procs := fs.Int("procs", 0, "")
	id := args[0]
	fs.Parse(args[1:])
	c := getCheck(id)
	if *procs > 0 {
		runtime.GOMAXPROCS(*procs)
	} else if c.Procs() == 1 {
		runtime.GOMAXPROCS(1)
	}
	seed := envSeed()
	for i := *from; i < *to; i++ {
		sc := genScenario(c, seed, i, *tier)
		st := NewStats()
		v, harness := safeExec(c, sc, st)
		verdict := "ok"
		if harness != "" {
			verdict = "HARNESS " + harness
		} else if v != nil {
			verdict = "VIOL " + v.Class
		}
		var fk []string
		for _, k := range sortedKeys(st.Faults) {
			fk = append(fk, fmt.Sprintf("%s=%d", k, st.Faults[k]))
		}
		fmt.Printf("%d %016x %d %s %s\n", i, st.Hash.Sum(), st.Events, verdict, strings.Join(fk, ","))
	}
	return 0
}

// ---------------------------------------------------------------- evidence

func writeEvidence(c Check, tier string, seed uint64, agg workerResult, distinct int, wall float64, violations int) {
	var samples []interface{}
	for i, s := range agg.Samples {
		if i >= 3 {
			break
		}
		samples = append(samples, s)
	}
	if len(samples) == 0 {
		samples = append(samples, genScenario(c, seed, 0, tier))
	}
	perHour := 0.0
	if wall > 0 {
		perHour = float64(agg.Runs) / wall * 3600
	}
	evPerRun := 0.0
	if agg.Runs > 0 {
		evPerRun = float64(agg.Events) / float64(agg.Runs)
	}
	ev := map[string]interface{}{
		"property_id": c.ID(),
		"tier":        tier,
		"seed":        int64(seed & 0x7fffffffffffffff),
		"level":       c.Level(),
		"coverage": map[string]interface{}{
			"evaluations":                          agg.Runs,
			"distinct_nontrivial":                  distinct,
			"rule":                                 c.Rule(),
			"samples":                              samples,
			"exhaustive":                           false,
			"runs_per_hour":                        perHour,
			"seeds_per_hour":                       perHour,
			"fault_free_runs":                      agg.FaultFree,
			"events":                               agg.Events,
			"events_per_run":                       evPerRun,
			"simulated_time":                       "n/a - no clock in the system under test; the time axis is the event sequence number (events above)",
			"faults_fired":                         agg.Faults,
			"probes":                               agg.Probes,
			"known_findings_hit":                   agg.Known,
			"distinct_nontrivial_is_a_lower_bound": agg.HashesCapped,
			"components":                           components,
			"go_version":                           runtime.Version(),
		},
		"assumptions": c.Assumptions(),
		"wall_s":      wall,
		"violations":  violations,
	}
	b, _ := json.MarshalIndent(ev, "", " ")
	dir := filepath.Join(outDir(), "evidence")
	os.MkdirAll(dir, 0o755)
	if err := os.WriteFile(filepath.Join(dir, c.ID()+".json"), b, 0o644); err != nil {
		fmt.Fprintln(os.Stderr, "cannot write evidence:", err)
	}
}

func sortInts(a []int) { sort.Ints(a) }

// cmdMergeEvidence folds stage B's evidence file into stage A's (C18).
func cmdMergeEvidence(args []string) int {
	dir := filepath.Join(outDir(), "evidence")
	read := func(name string) map[string]interface{} {
		b, err := os.ReadFile(filepath.Join(dir, name+".json"))
		if err != nil {
			return nil
		}
		var m map[string]interface{}
		dec := json.NewDecoder(bytes.NewReader(b))
		dec.UseNumber()
		if dec.Decode(&m) != nil {
			return nil
		}
		return m
	}
	num := func(v interface{}) int64 {
		if n, ok := v.(json.Number); ok {
			if i, err := n.Int64(); err == nil {
				return i
			}
			f, _ := n.Float64()
			return int64(f)
		}
		return 0
	}
	fnum := func(v interface{}) float64 {
		if n, ok := v.(json.Number); ok {
			f, _ := n.Float64()
			return f
		}
		return 0
	}
	a, b := read(args[0]), read(args[1])
	if a == nil || b == nil {
		fmt.Fprintln(os.Stderr, "merge-evidence: missing evidence file")
		return 2
	}
	ca, _ := a["coverage"].(map[string]interface{})
	cb, _ := b["coverage"].(map[string]interface{})
	ca["stage_A_deterministic_interleaving"] = map[string]interface{}{"evaluations": ca["evaluations"], "distinct_nontrivial": ca["distinct_nontrivial"], "rule": ca["rule"]}
	ca["stage_B_free_running_race_detector"] = cb
	ca["rule"] = fmt.Sprint(ca["rule"]) + " || " + fmt.Sprint(cb["rule"])
	ca["evaluations"] = num(ca["evaluations"]) + num(cb["evaluations"])
	a["wall_s"] = fnum(a["wall_s"]) + fnum(b["wall_s"])
	a["violations"] = num(a["violations"]) + num(b["violations"])
	as, _ := a["assumptions"].([]interface{})
	bs, _ := b["assumptions"].([]interface{})
	a["assumptions"] = append(as, bs...)
	out, _ := json.MarshalIndent(a, "", " ")
	if err := os.WriteFile(filepath.Join(dir, args[0]+".json"), out, 0o644); err != nil {
		return 2
	}
	os.Remove(filepath.Join(dir, args[1]+".json"))
	return 0
}
