package main

import (
	"bytes"
	"encoding/base64"
	"encoding/json"
	"fmt"
	"os"
	"unicode/utf8"
)

// Seg is a piece of a document: B repeated N times. Deep and huge documents
// stay small and shrinkable in a replay file this way.
type Seg struct {
	B []byte
	N int
}

type segJSON struct {
	S   *string `json:"s,omitempty"`
	B64 *string `json:"b64,omitempty"`
	N   int     `json:"n"`
}

func (s Seg) MarshalJSON() ([]byte, error) {
	j := segJSON{N: s.N}
	if utf8.Valid(s.B) {
		// encoding/json round-trips every valid UTF-8 string exactly
		str := string(s.B)
		j.S = &str
	} else {
		str := base64.StdEncoding.EncodeToString(s.B)
		j.B64 = &str
	}
	return json.Marshal(j)
}

func (s *Seg) UnmarshalJSON(b []byte) error {
	var j segJSON
	if err := json.Unmarshal(b, &j); err != nil {
		return err
	}
	s.N = j.N
	switch {
	case j.S != nil:
		s.B = []byte(*j.S)
	case j.B64 != nil:
		d, err := base64.StdEncoding.DecodeString(*j.B64)
		if err != nil {
			return err
		}
		s.B = d
	}
	return nil
}

// Doc is a document of a scenario.
type Doc struct {
	Segs  []Seg  `json:"segs"`
	Class string `json:"class,omitempty"`
	// Tail is placed in the spare capacity right behind the document (beyond len): what the
	// rest of the caller's read buffer holds, e.g. the part of a message that was cut off. Code
	// that looks beyond len(data) finds a plausible continuation there instead of nothing.
	Tail []byte `json:"tail,omitempty"`
}

func docOf(b []byte, class string) Doc {
	return Doc{Segs: []Seg{{B: append([]byte(nil), b...), N: 1}}, Class: class}
}

func docRep(class string, parts ...interface{}) Doc {
	// parts: alternating string/[]byte and int
	d := Doc{Class: class}
	for i := 0; i+1 < len(parts); i += 2 {
		var b []byte
		switch v := parts[i].(type) {
		case string:
			b = []byte(v)
		case []byte:
			b = v
		}
		d.Segs = append(d.Segs, Seg{B: b, N: parts[i+1].(int)})
	}
	return d
}

func (d Doc) Len() int {
	n := 0
	for _, s := range d.Segs {
		if s.N > 0 {
			n += len(s.B) * s.N
		}
	}
	return n
}

// Bytes builds a fresh copy of the document. spare extra bytes of capacity are
// appended and filled with poison so that writes beyond len are visible.
func (d Doc) Bytes() []byte { return d.BytesSpare(0) }

const poisonByte = 0xA5

func (d Doc) BytesSpare(spare int) []byte {
	n := d.Len()
	t := len(d.Tail)
	// the first byte sits at a varying offset (0..7) from the start of the allocation, so inputs are
	// not always 8-byte aligned (what word-at-a-time code would have to cope with); len and cap of
	// the slice handed out are unaffected
	k := (n*7 + t + 3*spare) % 8
	backing := make([]byte, k, k+n+t+spare)
	out := backing[k:k:cap(backing)]
	for _, s := range d.Segs {
		for i := 0; i < s.N; i++ {
			out = append(out, s.B...)
		}
	}
	full := out[:n+t+spare]
	copy(full[n:], d.Tail)
	for i := n + t; i < n+t+spare; i++ {
		full[i] = poisonByte
	}
	return out
}

// Op is one operation of a task. Kind names the API entry point (or a
// simulator action such as a scribble); A, B, C are small integer parameters
// whose meaning depends on Kind; Tape answers every question the environment
// is asked while the operation runs.
type Op struct {
	Kind string `json:"k"`
	Doc  int    `json:"d"`
	Doc2 int    `json:"d2,omitempty"`
	A    int    `json:"a,omitempty"`
	B    int    `json:"b,omitempty"`
	C    int    `json:"c,omitempty"`
	Rep  int    `json:"r,omitempty"` // repeat count (0 and 1 both mean once)
	Tape []int  `json:"t,omitempty"`
}

// Expect is what a replay file says must happen.
type Expect struct {
	Class string `json:"class"`
	Task  int    `json:"task"`
	Op    int    `json:"op"`
	Sig   string `json:"sig"`
}

// Scenario is one simulated run, and is also the replay file.
type Scenario struct {
	Property string         `json:"property"`
	Seed     uint64         `json:"seed"`
	Batch    uint64         `json:"batch,omitempty"` // the batch seed (VERIF_SEED) the scenario was generated under
	Index    int            `json:"index"`
	Cfg      map[string]int `json:"cfg,omitempty"`
	Docs     []Doc          `json:"docs"`
	Tasks    [][]Op         `json:"tasks"`
	Sched    []int          `json:"sched,omitempty"`
	Expect   *Expect        `json:"expect,omitempty"`
	Detail   string         `json:"detail,omitempty"`
	// Prelude: scenarios executed before this one in the same process, verdicts ignored. A violation
	// that needs process-lifetime state built up by earlier scenarios of the same worker (a
	// package-level cache, a lazily filled table, a shared "empty" value somebody wrote to) is
	// reported with the scenarios that built that state; the replay file is then a process history.
	Prelude []*Scenario `json:"prelude,omitempty"`
}

func (s *Scenario) cfg(k string) int {
	if s.Cfg == nil {
		return 0
	}
	return s.Cfg[k]
}

func (s *Scenario) Clone() *Scenario {
	b, err := json.Marshal(s)
	if err != nil {
		panic(err)
	}
	var c Scenario
	if err := json.Unmarshal(b, &c); err != nil {
		panic(err)
	}
	return &c
}

func (s *Scenario) JSON() []byte {
	b, err := json.MarshalIndent(s, "", " ")
	if err != nil {
		panic(err)
	}
	return b
}

func (s *Scenario) totalDocBytes() int {
	n := 0
	for _, d := range s.Docs {
		n += d.Len()
	}
	return n
}

func (s *Scenario) numOps() int {
	n := 0
	for _, t := range s.Tasks {
		n += len(t)
	}
	return n
}

func loadScenario(path string) (*Scenario, error) {
	b, err := os.ReadFile(path)
	if err != nil {
		return nil, err
	}
	var s Scenario
	dec := json.NewDecoder(bytes.NewReader(b))
	if err := dec.Decode(&s); err != nil {
		return nil, fmt.Errorf("%s: %v", path, err)
	}
	return &s, nil
}

// Tape is a decision tape: a list of small integers that answers every
// question asked of the environment during an operation. A tape that runs out
// answers 0, the plain choice.
type Tape struct {
	v    []int
	pos  int
	used int // highest position consumed + 1
}

func NewTape(v []int) *Tape { return &Tape{v: v} }

func (t *Tape) Next() int {
	if t == nil {
		return 0
	}
	i := t.pos
	t.pos++
	if i < len(t.v) {
		t.used = t.pos
		return t.v[i]
	}
	return 0
}

// Violation is what an oracle reports.
type Violation struct {
	Class  string `json:"class"`
	Task   int    `json:"task"`
	Op     int    `json:"op"`
	Sig    string `json:"sig"`    // stable signature for known findings
	Detail string `json:"detail"` // human-readable
}

func (v *Violation) String() string {
	return fmt.Sprintf("%s at task %d op %d: %s", v.Class, v.Task, v.Op, v.Detail)
}

// Stats is what a run reports besides its verdict.
type Stats struct {
	Events     int
	Faults     map[string]int
	Probes     map[string]int
	Hash       *Hasher
	NonTrivial bool
}

func NewStats() *Stats {
	return &Stats{Faults: map[string]int{}, Probes: map[string]int{}, Hash: NewHasher()}
}

func (s *Stats) fault(k string) { s.Faults[k]++; s.NonTrivial = true }
func (s *Stats) probe(k string) { s.Probes[k]++ }
func (s *Stats) ev(k string)    { s.Events++; s.Hash.Str(k) }
func (s *Stats) evi(k string, v int) {
	s.Events++
	s.Hash.Str(k)
	s.Hash.Int(v)
}
