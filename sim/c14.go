package main

import (
	"fmt"
	"runtime"

	"github.com/willabides/rjson"
)

// C14 — a reused Buffer never changes results, even when shared with the handler.

type c14 struct{}

func init() { register(c14{}) }

func (c14) ID() string    { return "C14" }
func (c14) Level() string { return "exploration" }
func (c14) Procs() int    { return 2 }
func (c14) Budget(tier string) (int, int) {
	if tier == "thorough" {
		return 5000000, 600
	}
	return 20000, 90
}
func (c14) Rule() string {
	return "seeded histories of 1-12 calls of Valid / SkipValue / SkipValueFast / HandleArrayValues / HandleObjectValues that all pass the same Buffer (sometimes two, alternating), on documents of every class so that the history contains successes, syntax failures, depth-limit exits (10,001+), truncated documents and traversals aborted by an injected handler error. Faults: B-scribble / B-resize (every element of the stack incl. spare capacity overwritten with negative, huge and plausible state numbers, length reset to 0/1/len-1/len/2/cap/nil) between calls and inside callbacks; H-reenter: the handler re-enters the library (SkipValue, SkipValueFast, Valid, nested Handle*, ReadValue) on the member, on the whole document or on a deeper document, with the enclosing call's own Buffer / a second Buffer / nil; nested traversals sharing the Buffer at several levels. Inputs are fresh copies or live in one reused read buffer (same address for every call, sometimes same length with different bytes); some cheap calls are repeated 300-12,000 times. Oracle: every call is executed a second time on a fresh copy of the input with no Buffer anywhere and the same decision tape; result, offset, error identity and the full callback history (incl. results of re-entrant calls) must be identical. Non-trivial: >= 2 calls touched the Buffer or a fault fired; distinct = distinct hashes of (operation, document class, outcome, decisions, scribbles) sequences."
}
func (c14) Assumptions() []string {
	return []string{"self-differential: the no-Buffer execution of the same code is the reference, so changes to what the parser accepts do not raise C14 alarms", "documents and decision tapes are sampled"}
}
func (c14) Required(tier string) []string {
	return []string{"B-scribble", "B-resize", "H-reenter", "H-error", "H-nested", "reenter-with-enclosing-buffer", "scribble-inside-callback",
		// ("reentrant-call-grew-shared-stack", "stack-grown-by-call" and "call-on-prewarmed-stack" look at the
		// Buffer's own representation: reported, not required - a Buffer that keeps its memory differently must not break the check)
		"call-after-failed-call", "call-after-depth-limit-exit", "call-after-handler-abort", "input-in-reused-arena", "same-address-same-length-different-bytes", "history-of-10000-calls", "retry-on-the-completed-message-after-a-partial-one", "G-gc", "H-panic"}
}

var bufOps = []string{"Valid", "SkipValue", "SkipValueFast", "HandleArrayValues", "HandleObjectValues"}

func genC14Tape(r *Rand, n int) []int {
	t := make([]int, n)
	for i := range t {
		if r.Chance(1, 40) {
			t[i] = dPanic
			continue
		}
		switch r.Pick(5, 4, 1, 6, 3, 1) {
		case 0:
			t[i] = dDecline
		case 1:
			t[i] = dConsume
		case 2:
			t[i] = mkDec(dError, r.Intn(nErrKinds)+nErrKinds*r.Intn(3))
		case 3:
			// re-enter: bias towards the enclosing buffer (mode 0) and scribbling
			arg := r.Intn(4) + 4*r.Intn(6)
			if r.Chance(1, 4) {
				arg += 24 * r.Range(1, 2)
			}
			if r.Chance(1, 2) {
				arg += 72
			}
			t[i] = mkDec(dReenter, arg)
		case 4:
			t[i] = mkDec(dNested, r.Intn(2)+2*[]int{0, 0, 1, 2}[r.Intn(4)])
		case 5:
			t[i] = mkDec(dHostile, r.Intn(nHostile))
		}
		// the entry after a re-entry is its scribble pattern / follow-up decision: leave random
	}
	return t
}

func (c14) Gen(r *Rand, sc *Scenario, tier string) {
	nops := []int{1, 2, 3, 4, 6, 12}[r.Intn(6)]
	faultFree := r.Chance(1, 6)
	var ops []Op
	for i := 0; i < nops; i++ {
		name := bufOps[r.Intn(len(bufOps))]
		var d Doc
		obj := name == "HandleObjectValues"
		switch r.Pick(6, 3, 2, 2, 2, 2, 1) {
		case 6:
			// hundreds of kilobytes with a wide root (only now and then: they are slow)
			if r.Chance(1, 2) {
				d = genDoc(r, "large")
				if r.Chance(1, 2) {
					// a wide root of a few hundred kilobytes: elements are small containers
					n := r.Range(9000, 30000)
					// neighbouring elements of different shape: arrays in objects, objects in arrays, different depths
					d = docRep("large", "[", 1, `{"a":[1,2,{"b":null}]},[1,[2,[{"c":[3]}]],"x"],{"k":"v","l":[true,{"m":{}}]},[[[[4]]]],`, n/4, "0]", 1)
				}
				if name != "HandleArrayValues" && name != "HandleObjectValues" {
					name = []string{"Valid", "SkipValue", "SkipValueFast"}[r.Intn(3)]
				}
			} else {
				d = genDoc(r, "medium")
			}
		case 0:
			if name == "HandleArrayValues" || obj {
				d = genTraversalDoc(r, obj, true)
			} else {
				d = genDoc(r, []string{"tiny", "small", "medium"}[r.Intn(3)])
			}
		case 1:
			d = genMutated(r, []string{"tiny", "small"}[r.Intn(2)])
		case 2:
			d = genDoc(r, "deep")
		case 3:
			d = genDoc(r, "toodeep")
		case 4:
			// container whose members are themselves deep: declined members push the machine's own stack
			inner := deepDoc(r.Intn(3), []int{3, 40, 700, 9999, 10001}[r.Intn(5)], "1").Bytes()
			if obj {
				d = docRep("container-deep-members", `{"a":`, 1, inner, 1, `,"b":`, 1, inner, 1, `,"c":1}`, 1)
			} else {
				d = docRep("container-deep-members", `[`, 1, inner, 1, `,`, 1, inner, 1, `,1]`, 1)
			}
		case 5:
			b := genContainerDoc(r, obj, memberCount(r), 800)
			cut := b
			if len(b) > 0 {
				cut = b[:r.Intn(len(b)+1)]
			}
			d = docCut(r, b, cut, "truncated")
		}
		sc.Docs = append(sc.Docs, d)
		op := Op{Kind: name, Doc: len(sc.Docs) - 1}
		// secondary document for re-entrant calls: usually deeper than the outer one
		op.Doc2 = r.Intn(len(sc.Docs))
		if r.Chance(1, 2) {
			sc.Docs = append(sc.Docs, deepDoc(r.Intn(3), []int{5, 60, 900, 9999, 10001}[r.Intn(5)], "1"))
			op.Doc2 = len(sc.Docs) - 1
		}
		op.B = r.Intn(4) // bit 0: struct handler; bit 1: input lives in a reused arena (same address for every call)
		if sc.Docs[op.Doc].Len() < 200 && r.Chance(1, 25) {
			// very long histories of cheap calls: state that only builds up over thousands of uses
			op.Rep = []int{300, 10001, 12000}[r.Intn(3)]
		}
		if !faultFree {
			op.Tape = genC14Tape(r, r.Range(0, 30))
			if r.Chance(1, 2) {
				op.C = r.Range(1, 1<<20)
			}
			if r.Chance(1, 8) {
				op.A = 1
			}
		} else {
			op.Tape = genDecisionTape(r, r.Range(0, 30), true)
		}
		if op.Rep > 1 {
			// thousands of repetitions: keep each one cheap (no re-entrance into deep documents)
			op.Tape = genDecisionTape(r, r.Range(0, 12), false)
			if r.Chance(1, 2) {
				op.Tape = append(op.Tape, mkDec(dError, r.Intn(nErrKinds)))
			} else if r.Chance(1, 2) {
				op.Tape = append(op.Tape, dPanic) // thousands of calls that end in a recovered handler panic
			}
		}
		if r.Chance(1, 12) && sc.Docs[op.Doc].Len() > 1 && sc.Docs[op.Doc].Len() < 5000 && op.Rep <= 1 {
			// a message that has only partly arrived: the call fails on the prefix (the rest already sits
			// behind it in the read buffer), then the caller retries on the completed message at the same address
			full := sc.Docs[op.Doc].Bytes()
			k := r.Range(1, len(full)-1)
			cut := docOf(full[:k], sc.Docs[op.Doc].Class+"-partial")
			cut.Tail = append([]byte(nil), full[k:]...)
			sc.Docs = append(sc.Docs, cut)
			first := op
			first.Doc = len(sc.Docs) - 1
			first.B |= 2
			ops = append(ops, first)
			op.B |= 2
			sc.Cfg["retry-after-partial"] = 1
		}
		ops = append(ops, op)
		if r.Chance(1, 8) && sc.Docs[op.Doc].Len() > 0 && sc.Docs[op.Doc].Len() < 5000 {
			// the caller overwrites its read buffer with a different message of the same length and
			// calls again: same address, same length, different bytes
			b := sc.Docs[op.Doc].Bytes()
			if nb, ok := swapSiblingsDoc(r, b); ok && r.Chance(1, 2) {
				b = nb
			} else {
				for k := 0; k < 8; k++ {
					i := r.Intn(len(b))
					switch b[i] {
					case ',', ':':
						b[i] = ' '
					case '"':
						b[i] = 'q'
					case ' ':
						b[i] = ','
					default:
						if k < 7 {
							continue
						}
						b[i] = mutBytes[r.Intn(len(mutBytes))]
					}
					break
				}
			}
			sc.Docs = append(sc.Docs, docOf(b, sc.Docs[op.Doc].Class+"-samelen"))
			ops[len(ops)-1].B |= 2
			op2 := Op{Kind: bufOps[r.Intn(3)], Doc: len(sc.Docs) - 1, Doc2: op.Doc2, A: op.A, B: op.B | 2, Tape: genDecisionTape(r, 8, false)}
			ops = append(ops, op2)
		}
	}
	sc.Tasks = [][]Op{ops}
	if r.Chance(1, 30) && len(ops) <= 12 {
		sc.Cfg["gc-between-calls"] = 1
	}
}

// gcBetween runs two garbage collections between two calls of a history when the scenario asks for
// it (fault G-gc): sync.Pools are emptied, finalizers run, weak references die - whatever a library
// parks there must not be needed for a correct result.
func gcBetween(sc *Scenario, st *Stats, oi int) {
	if oi > 0 && sc.cfg("gc-between-calls") == 1 {
		runtime.GC()
		runtime.GC()
		st.fault("G-gc")
	}
}

func (c14) Exec(sc *Scenario, st *Stats) *Violation {
	pool := newSimPool(nil, nil)
	pool.install()
	defer uninstallPool()
	bufs := []*rjson.Buffer{{}, {}}
	lastFailed, lastDepthExit, lastAbort := false, false, false
	touched := 0
	maxLen := 0
	for _, d := range sc.Docs {
		if d.Len()+len(d.Tail) > maxLen {
			maxLen = d.Len() + len(d.Tail)
		}
	}
	if sc.cfg("retry-after-partial") == 1 {
		st.probe("retry-on-the-completed-message-after-a-partial-one")
	}
	// read buffers that are reused for every call that asks for it: same address every time
	arenaA, arenaB := make([]byte, maxLen), make([]byte, maxLen)
	for oi, op := range sc.Tasks[0] {
		if op.Doc >= len(sc.Docs) {
			continue
		}
		gcBetween(sc, st, oi)
		d := sc.Docs[op.Doc]
		dataA, dataB := d.Bytes(), d.Bytes()
		if op.B&2 != 0 {
			nA, nB := copy(arenaA, dataA), copy(arenaB, dataB)
			copy(arenaA[nA:], d.Tail) // what has not "arrived" yet is already in the buffer, behind len
			copy(arenaB[nB:], d.Tail)
			dataA, dataB = arenaA[:nA], arenaB[:nB]
			st.probe("input-in-reused-arena")
			if len(d.Class) > 8 && d.Class[len(d.Class)-8:] == "-samelen" {
				st.probe("same-address-same-length-different-bytes")
			}
		}
		var d2A, d2B []byte
		if op.Doc2 < len(sc.Docs) {
			d2A, d2B = sc.Docs[op.Doc2].Bytes(), sc.Docs[op.Doc2].Bytes()
		}
		buf := bufs[op.A&1]
		if op.C != 0 {
			if scribble(buf, op.C) {
				st.fault("B-resize")
			}
			st.fault("B-scribble")
		}
		if lastFailed {
			st.probe("call-after-failed-call")
		}
		if lastDepthExit {
			st.probe("call-after-depth-limit-exit")
		}
		if lastAbort {
			st.probe("call-after-handler-abort")
		}
		capBefore := cap(buf.VerifStack())
		if capBefore > 0 {
			st.probe("call-on-prewarmed-stack")
		}
		st.ev(op.Kind)
		st.ev(d.Class)
		st.evi("scribble", b2i(op.C != 0))
		reps := op.Rep
		if reps < 1 {
			reps = 1
		}
		if reps >= 10000 {
			st.probe("history-of-10000-calls")
		}
		var outA, outB Outcome
		var xA, xB *opCtx
		for rep := 0; rep < reps; rep++ {
			xA = &opCtx{st: st, tape: NewTape(op.Tape), buf: buf, doc2: d2A, structH: op.B&1 != 0, quiet: rep > 0}
			outA = runAPI(op.Kind, xA, dataA)
			xB = &opCtx{st: st, tape: NewTape(op.Tape), noBuf: true, doc2: d2B, quiet: true, structH: op.B&1 != 0}
			outB = runAPI(op.Kind, xB, dataB)
			if rep < reps-1 && diffOutcome(outA, outB) != "" {
				break
			}
		}
		touched++
		if touched >= 2 {
			st.NonTrivial = true
		}
		if cap(buf.VerifStack()) > capBefore {
			st.probe("stack-grown-by-call")
		}
		st.evi("ok", b2i(outA.OK))
		if diff := diffOutcome(outA, outB); diff != "" {
			return &Violation{Class: "buffer-changes-outcome", Task: 0, Op: oi, Sig: "C14/buffer-changes-outcome/" + op.Kind,
				Detail: fmt.Sprintf("call %d, %s on %q (class %s) with the reused Buffer vs with no Buffer: %s", oi, op.Kind, clip(string(dataB), 60), d.Class, diff)}
		}
		lastFailed = !outB.OK && outB.Panic == ""
		lastDepthExit = d.Class == "toodeep" || (len(d.Class) >= 4 && d.Class[:4] == "deep" && !outB.OK)
		lastAbort = xA.henv != nil && xA.henv.thrown >= 0
	}
	return nil
}
