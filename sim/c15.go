package main

import (
	"bytes"
	"encoding/json"
	"fmt"
	"strings"
	"unicode/utf8"

	"github.com/willabides/rjson"
)

// C15 — a reused ValueReader matches a fresh one and never mutates returned values.
// C03 — generic decoding yields the same value tree as encoding/json (reduced scope).
// Both drive ValueReader histories under tape-decided pool schedules.

type c15 struct{}

func init() { register(c15{}); register(c03{}) }

func (c15) ID() string    { return "C15" }
func (c15) Level() string { return "exploration" }
func (c15) Procs() int    { return 2 }
func (c15) Budget(tier string) (int, int) {
	if tier == "thorough" {
		return 5000000, 600
	}
	return 16000, 90
}
func (c15) Rule() string {
	return "seeded histories of 1-10 ReadValue / ReadObject / ReadArray calls on ONE ValueReader (entry point drawn per call), on documents of very different sizes and classes: successes, syntax errors deep inside nested containers, root-type mismatches, null for the typed entry points, number overflow, nesting 10,001+ (depth-limit exit on a pooled child). Pool schedule from the tape at every borrow: P-miss (fresh child although readers are pooled), P-pick (an older pooled reader, with its own stale hints/scratch/depth), P-evict (all pooled readers dropped, as a GC does), plus evictions between calls. Caller mutations of returned trees between calls (overwrite elements, add/delete keys, append within and beyond capacity). Oracle: each result equals the result of a brand-new ValueReader on a fresh copy of the bytes; every tree returned so far is deep-snapshotted at return and re-compared after every later step. Non-trivial: >= 2 reads on the reader or a pool fault fired; distinct = distinct hashes of (entry point, document class, outcome, pool decisions, mutations)."
}
func (c15) Assumptions() []string {
	return []string{"self-differential: a fresh ValueReader running the same code is the reference", "documents and pool schedules are sampled"}
}
func (c15) Required(tier string) []string {
	return []string{"P-miss", "P-pick", "P-evict", "X-mutate-result", "A-abort", "pool-hit-serves-a-previously-used-reader", "read-after-failed-read", "read-after-depth-limit-exit", "read-after-10x-larger-document", "snapshots-rechecked", "input-in-reused-arena", "top-level-string", "next-message-same-address-same-length-other-content", "thousands-of-never-seen-field-names", "partial-message-then-retry-at-the-same-address", "G-gc", "kept-error-values-rechecked"}
}

var vrOps = []string{"VR.ReadValue", "VR.ReadObject", "VR.ReadArray"}

func genPoolTape(r *Rand, n int) []int {
	t := make([]int, n)
	style := r.Pick(2, 3, 2, 1)
	for i := range t {
		switch style {
		case 0: // always hit
			t[i] = pHit
		case 1: // mostly hit
			t[i] = []int{pHit, pHit, pHit, pMiss, pPick + 4*r.Intn(4), pHit, pHit, pEvict}[r.Intn(8)]
		case 2: // coin
			t[i] = []int{pHit, pMiss, pPick + 4*r.Intn(4)}[r.Intn(3)]
		case 3: // always miss
			t[i] = pMiss
		}
	}
	return t
}

// genVRDoc draws a document for a generic read.
func genVRDoc(r *Rand, entry string) Doc {
	obj := entry == "VR.ReadObject" || (entry == "VR.ReadValue" && r.Chance(1, 2))
	if r.Chance(1, 12) {
		if r.Chance(1, 6) {
			return genHugeStringDoc(r)
		}
		b := genHomogeneousArray(r)
		if entry == "VR.ReadObject" {
			b = append(append([]byte(`{"v":`), b...), '}')
		}
		return docOf(withTrailer(r, b), "homogeneous-array")
	}
	switch r.Pick(8, 3, 2, 2, 1, 1, 2, 1, 2) {
	case 8: // a bare top-level string, long enough to outgrow any small-string special case
		if entry == "VR.ReadValue" {
			cfg := &genCfg{esc: r.Pick(2, 1, 1), rawBad: r.Chance(1, 5)}
			var b bytes.Buffer
			b.WriteByte('"')
			genStringContent(r, &b, cfg, []int{3, 60, 130, 300, 2000}[r.Intn(5)])
			b.WriteByte('"')
			return docOf(withTrailer(r, b.Bytes()), "top-level-string")
		}
		return docOf(genContainerDoc(r, obj, 2, 3000), "container")
	case 0:
		n := memberCount(r)
		return docOf(withTrailer(r, genContainerDoc(r, obj, n, []int{100, 1000, 8000}[r.Intn(3)])), "container")
	case 1: // failing: mutated somewhere
		b := genContainerDoc(r, obj, memberCount(r), 600)
		return docMut(r, b, "container-mut")
	case 2: // wrong root type / null
		return docOf([]byte([]string{"null", " null", "1", `"s"`, "true", "[]", "{}", "[1]", `{"a":1}`, ""}[r.Intn(10)]), "root-mismatch")
	case 3: // number overflow somewhere inside
		b := genContainerDoc(r, obj, r.Range(1, 6), 200)
		i := bytes.LastIndexByte(b, byte("]}"[b2i(obj)]))
		if i > 0 {
			ins := []string{`,1e999`, `,-1e400`, `,[[1e309]]`}[r.Intn(3)]
			if obj {
				ins = []string{`,"of":1e999`, `,"of":{"x":[-1e400]}`}[r.Intn(2)]
			}
			if b[i-1] == '[' || b[i-1] == '{' {
				ins = ins[1:]
			}
			b = append(b[:i:i], append([]byte(ins), b[i:]...)...)
		}
		return docOf(b, "overflow")
	case 4:
		return genDoc(r, "toodeep")
	case 5:
		return genDoc(r, "deep")
	case 6: // big: size hints and scratch grow
		n := []int{200, 1000, 3000}[r.Intn(3)]
		var b bytes.Buffer
		if obj {
			b.WriteString(`{"big":{`)
			for i := 0; i < n; i++ {
				if i > 0 {
					b.WriteByte(',')
				}
				fmt.Fprintf(&b, `"k%d":"v\n%d"`, i, i)
			}
			b.WriteString(`},"small":{"a":[1,2,3]}}`)
		} else {
			b.WriteString(`[[`)
			for i := 0; i < n; i++ {
				if i > 0 {
					b.WriteByte(',')
				}
				fmt.Fprintf(&b, `%d`, i)
			}
			b.WriteString(`],[1],{"a":"\t"}]`)
		}
		return docOf(b.Bytes(), "big")
	}
	return genDoc(r, "tiny")
}

func (c15) Gen(r *Rand, sc *Scenario, tier string) { genVRHistory(r, sc, true) }

func genVRHistory(r *Rand, sc *Scenario, withMutations bool) {
	if sc.Index%8000 == 77 {
		// a long-lived reader that has seen tens of millions of values: nine reads of a 2^21-element
		// array (plus a few small documents) through one entry point - whatever a reader counts or
		// accumulates per value over its lifetime gets large
		entry := vrOps[[]int{0, 0, 2}[r.Intn(3)]]
		sc.Docs = append(sc.Docs, docRep("two-million-elements", "[", 1, "1,", 1<<21, "1]", 1), docOf([]byte(`[1,{"a":[2]}]`), "small"))
		var ops []Op
		for i := 0; i < 9; i++ {
			ops = append(ops, Op{Kind: entry, Doc: 0})
		}
		ops = append(ops, Op{Kind: entry, Doc: 1}, Op{Kind: "VR.ReadValue", Doc: 1})
		sc.Tasks = [][]Op{ops}
		sc.Cfg["tens-of-millions-of-values"] = 1
		return
	}
	if r.Chance(1, 40) {
		// 2-4 documents with thousands of field names each, none of them seen before: state that a
		// reader accumulates per distinct key (interning tables, key arenas) overflows and wraps
		var ops []Op
		base := 0
		for i, n := 0, r.Range(2, 4); i < n; i++ {
			k := []int{3000, 5000, 9000}[r.Intn(3)]
			sc.Docs = append(sc.Docs, genDistinctKeysDoc(r, base, k))
			base += k
			ops = append(ops, Op{Kind: vrOps[r.Pick(4, 1, 1)], Doc: len(sc.Docs) - 1, Tape: genPoolTape(r, 8)})
		}
		sc.Tasks = [][]Op{ops}
		return
	}
	if r.Chance(1, 25) {
		// a run of 2-5 homogeneous arrays through ONE entry point of the one reader (what a typed fast
		// path that is switched on by an earlier result would see): intact ones and damaged ones mixed
		entry := []string{"VR.ReadArray", "VR.ReadArray", "VR.ReadValue"}[r.Intn(3)]
		var ops []Op
		for i, n := 0, r.Range(2, 5); i < n; i++ {
			sc.Docs = append(sc.Docs, docOf(withTrailer(r, genHomogeneousArray(r)), "homogeneous-array"))
			ops = append(ops, Op{Kind: entry, Doc: len(sc.Docs) - 1, B: 2 * r.Intn(2), Tape: genPoolTape(r, 4)})
		}
		sc.Tasks = [][]Op{ops}
		return
	}
	nops := []int{1, 2, 3, 4, 6, 10}[r.Intn(6)]
	faultFree := r.Chance(1, 6)
	var ops []Op
	reads := 0
	for i := 0; i < nops; i++ {
		if withMutations && reads > 0 && r.Chance(1, 4) {
			ops = append(ops, Op{Kind: "mutate-result", A: r.Intn(reads), B: r.Intn(6), C: r.Range(0, 1000)})
			continue
		}
		if reads > 0 && !faultFree && r.Chance(1, 10) {
			ops = append(ops, Op{Kind: "evict-pool"})
			continue
		}
		entry := vrOps[r.Pick(4, 3, 3)]
		sc.Docs = append(sc.Docs, genVRDoc(r, entry))
		op := Op{Kind: entry, Doc: len(sc.Docs) - 1, B: 2 * r.Intn(2)}
		if !faultFree {
			op.Tape = genPoolTape(r, r.Range(0, 60))
		}
		if sc.Docs[op.Doc].Len() > 1 && sc.Docs[op.Doc].Len() < 5000 && r.Chance(1, 12) {
			// partial message first (fails), then the retry on the completed one at the same address
			full := sc.Docs[op.Doc].Bytes()
			k := r.Range(1, len(full)-1)
			cut := docOf(full[:k], sc.Docs[op.Doc].Class+"-partial")
			cut.Tail = append([]byte(nil), full[k:]...)
			sc.Docs = append(sc.Docs, cut)
			first := op
			first.Doc = len(sc.Docs) - 1
			first.B |= 2
			ops = append(ops, first)
			op.B |= 2
			reads++
		}
		ops = append(ops, op)
		reads++
		if sc.Docs[op.Doc].Len() < 5000 && r.Chance(1, 6) {
			// the caller's read buffer receives the next message: same address, same length, same
			// structure, other key / string bytes (1-3 successors in a row)
			cur := sc.Docs[op.Doc].Bytes()
			for k := r.Range(1, 3); k > 0; k-- {
				nb, ok := succDoc(r, cur)
				if r.Chance(1, 3) {
					if sb, ok2 := swapSiblingsDoc(r, cur); ok2 {
						nb, ok = sb, true
					}
				}
				if !ok {
					break
				}
				ops[len(ops)-1].B |= 2
				sc.Docs = append(sc.Docs, docOf(nb, sc.Docs[op.Doc].Class+"-successor"))
				op2 := Op{Kind: op.Kind, Doc: len(sc.Docs) - 1, B: 2, Tape: op.Tape}
				if r.Chance(1, 4) {
					op2.Kind = vrOps[r.Intn(3)]
				}
				ops = append(ops, op2)
				reads++
				cur = nb
			}
		}
	}
	sc.Tasks = [][]Op{ops}
	if r.Chance(1, 30) && len(ops) <= 12 {
		sc.Cfg["gc-between-calls"] = 1
	}
}

// mutateTree changes a returned tree the way a caller might.
func mutateTree(v interface{}, kind, seed int) interface{} {
	switch t := v.(type) {
	case []interface{}:
		switch kind % 6 {
		case 0:
			for i := range t {
				t[i] = "MUT"
			}
		case 1: // append within capacity (writes into the backing array beyond len)
			full := t[:cap(t)]
			for i := len(t); i < len(full); i++ {
				full[i] = "SPARE"
			}
		case 2: // append beyond capacity
			t = append(t, "A", "B", "C")
			return t
		case 3:
			if len(t) > 0 {
				t[seed%len(t)] = map[string]interface{}{"mut": 1.0}
			}
		case 4:
			if len(t) > 0 {
				t[seed%len(t)] = mutateTree(t[seed%len(t)], kind/6+seed, seed/7)
			}
		case 5:
			if len(t) > 1 {
				t[0], t[len(t)-1] = t[len(t)-1], t[0]
			}
		}
		return t
	case map[string]interface{}:
		switch kind % 6 {
		case 0:
			for k := range t {
				t[k] = "MUT"
			}
		case 1:
			t["added-by-caller"] = 1.0
			t[""] = nil
		case 2:
			for k := range t {
				delete(t, k)
			}
		case 3, 4:
			for _, k := range sortedMapKeys(t) {
				t[k] = mutateTree(t[k], kind/6+seed, seed/7)
			}
		case 5:
			for i := 0; i < 40; i++ {
				t[fmt.Sprintf("grow%d", i)] = float64(i)
			}
		}
		return t
	}
	return v
}

func sortedMapKeys(m map[string]interface{}) []string {
	ks := make([]string, 0, len(m))
	for k := range m {
		ks = append(ks, k)
	}
	sortStrings(ks)
	return ks
}

func sortStrings(a []string) {
	for i := 1; i < len(a); i++ {
		for j := i; j > 0 && a[j] < a[j-1]; j-- {
			a[j], a[j-1] = a[j-1], a[j]
		}
	}
}

type vrResult struct {
	live, snap interface{}
	op         int
}

func (c15) Exec(sc *Scenario, st *Stats) *Violation {
	pool := newSimPool(st, nil)
	pool.install()
	defer uninstallPool()
	reader := &rjson.ValueReader{}
	if sc.cfg("tens-of-millions-of-values") == 1 {
		st.probe("reader-that-has-read-tens-of-millions-of-values")
	}
	var results []*vrResult
	type keptErr struct {
		err  error
		text string
		op   int
	}
	var keptErrs []keptErr // error values the caller kept from failed reads: returned values too
	lastFailed, lastDepth, reads := false, false, 0
	lastLen := 0
	maxLen := 0
	for _, d := range sc.Docs {
		if d.Len()+len(d.Tail) > maxLen {
			maxLen = d.Len() + len(d.Tail)
		}
	}
	arena := make([]byte, maxLen) // a read buffer the caller reuses: same address for every call that asks for it
	for oi, op := range sc.Tasks[0] {
		viol := func(class, detail string) *Violation {
			return &Violation{Class: class, Task: 0, Op: oi, Sig: "C15/" + class + "/" + op.Kind, Detail: detail}
		}
		gcBetween(sc, st, oi)
		switch op.Kind {
		case "mutate-result":
			if len(results) == 0 {
				continue
			}
			r := results[op.A%len(results)]
			r.live = mutateTree(r.live, op.B, op.C)
			r.snap = deepSnap(r.live)
			st.fault("X-mutate-result")
			st.evi("mutate", op.B)
		case "evict-pool":
			pool.evictAll()
			st.fault("P-evict")
			st.ev("evict")
		default:
			d := sc.Docs[op.Doc]
			dataA, dataB := d.Bytes(), d.Bytes()
			if op.B&2 != 0 {
				n := copy(arena, dataA)
				copy(arena[n:], d.Tail)
				dataA = arena[:n]
				if strings.HasSuffix(d.Class, "-partial") {
					st.probe("partial-message-then-retry-at-the-same-address")
				}
				st.probe("input-in-reused-arena")
				if strings.HasSuffix(d.Class, "-successor") {
					st.probe("next-message-same-address-same-length-other-content")
				}
			}
			if d.Class == "top-level-string" {
				st.probe("top-level-string")
			}
			if d.Class == "many-distinct-keys" {
				st.probe("thousands-of-never-seen-field-names")
			}
			if lastFailed {
				st.probe("read-after-failed-read")
			}
			if lastDepth {
				st.probe("read-after-depth-limit-exit")
			}
			if lastLen > 10*len(dataA) && lastLen > 500 {
				st.probe("read-after-10x-larger-document")
			}
			pool.tape = NewTape(op.Tape)
			st.ev(op.Kind)
			st.ev(d.Class)
			outA := runAPIRaw(op.Kind, &opCtx{st: st, reader: reader}, dataA)
			// the reference: a brand-new reader, its own (empty) pool, default decisions
			fresh := newSimPool(nil, nil)
			fresh.install()
			outB := runAPIRaw(op.Kind, &opCtx{st: st, reader: &rjson.ValueReader{}}, dataB)
			pool.install()
			reads++
			if reads >= 2 {
				st.NonTrivial = true
			}
			st.evi("ok", b2i(outA.OK))
			if !outA.OK {
				st.fault("A-abort")
			}
			if diff := diffOutcome(outA, outB); diff != "" {
				return viol("reused-reader-differs", fmt.Sprintf("call %d, %s on %q (class %s): reused reader vs brand-new reader: %s", oi, op.Kind, clip(string(dataB), 80), d.Class, diff))
			}
			if outA.OK && outA.Panic == "" {
				results = append(results, &vrResult{live: outA.Val, snap: deepSnap(outA.Val), op: oi})
			}
			if outA.Err != nil && len(keptErrs) < 8 {
				keptErrs = append(keptErrs, keptErr{outA.Err, errText(outA.Err), oi})
			}
			lastFailed = !outA.OK
			lastDepth = d.Class == "toodeep"
			lastLen = len(dataA)
			// the caller is done with the input: overwrite it
			poison(dataA, 0x58)
		}
		for _, k := range keptErrs {
			st.probe("kept-error-values-rechecked")
			if now := errText(k.err); now != k.text {
				return viol("returned-value-changed", fmt.Sprintf("the error returned by call %d read %q when it was returned and reads %q after step %d (%s)", k.op, k.text, now, oi, op.Kind))
			}
		}
		for _, r := range results {
			st.probe("snapshots-rechecked")
			if !eqVal(r.live, r.snap) {
				return viol("returned-value-changed", fmt.Sprintf("the value returned by call %d changed after step %d (%s): now %s, was %s", r.op, oi, op.Kind, descVal(r.live), descVal(r.snap)))
			}
		}
	}
	return nil
}

// runAPIRaw is runAPI without normalising container results away from the
// live values (the caller wants to keep and mutate the very trees returned).
func runAPIRaw(name string, x *opCtx, data []byte) (out Outcome) {
	defer func() {
		if r := recover(); r != nil {
			out = Outcome{Panic: panicString(r), ErrIdx: -1}
		}
	}()
	out.ErrIdx = -1
	var err error
	switch name {
	case "VR.ReadValue":
		out.Val, out.P, err = x.reader.ReadValue(data)
	case "VR.ReadObject":
		var m map[string]interface{}
		m, out.P, err = x.reader.ReadObject(data)
		if m != nil {
			out.Val = m
		}
	case "VR.ReadArray":
		var a []interface{}
		a, out.P, err = x.reader.ReadArray(data)
		if a != nil {
			out.Val = a
		}
	case "ReadValue":
		out.Val, out.P, err = rjson.ReadValue(data)
	case "ReadObject":
		var m map[string]interface{}
		m, out.P, err = rjson.ReadObject(data)
		if m != nil {
			out.Val = m
		}
	case "ReadArray":
		var a []interface{}
		a, out.P, err = rjson.ReadArray(data)
		if a != nil {
			out.Val = a
		}
	default:
		panic(harnessError("runAPIRaw: " + name))
	}
	out.OK = err == nil
	out.Err = err
	return out
}

// ---------------------------------------------------------------- C03

type c03 struct{}

func (c03) ID() string    { return "C03" }
func (c03) Level() string { return "exploration" }
func (c03) Procs() int    { return 2 }
func (c03) Budget(tier string) (int, int) {
	if tier == "thorough" {
		return 5000000, 600
	}
	return 8000, 90
}
func (c03) Rule() string {
	return "REDUCED SCOPE (the input dimension of C03 is only sampled): seeded histories of 1-10 generic reads (ReadValue/ReadObject/ReadArray through one reused ValueReader and through the free functions) of generated trees - duplicate keys in plain and escaped spelling, escaped keys after nested objects, empty containers, deep/wide nesting, numbers on every float path, raw invalid UTF-8 - and of mutated documents, under tape-decided pool schedules (P-miss / P-pick / P-evict at every borrow). Oracle: an independent reference parser (last duplicate wins, invalid UTF-8 verbatim, strconv.ParseFloat, offset = end of value, success iff well-formed, nesting <= 10,000 and all numbers finite; ReadObject/ReadArray reject every other root type incl. null); the reference itself is cross-checked against encoding/json's streaming decoder on every document <= 64 KB (tree after U+FFFD replacement, when no two keys collide). Non-trivial: a container was decoded through at least one pooled borrow or >= 2 reads happened; distinct = distinct hashes of (entry point, document class, outcome, pool decisions)."
}
func (c03) Assumptions() []string {
	return []string{"reduced scope: what is decided is independence of the result from pool scheduling and reader reuse, plus agreement with the model on sampled documents; exhaustiveness over byte strings is not claimed", "reference parser cross-checked against encoding/json per document"}
}
func (c03) Required(tier string) []string {
	return []string{"P-miss", "P-pick", "P-evict", "duplicate-key", "escaped-key", "empty-container", "typed-entry-rejects-null", "typed-entry-rejects-other-root", "number-out-of-range-rejected", "depth-10000-accepted", "depth-10001-rejected", "invalid-utf8-kept", "model-vs-encoding-json-tree-checked", "input-in-reused-arena", "next-message-same-address-same-length-other-content", "X-mutate-result", "partial-message-then-retry-at-the-same-address", "G-gc"}
}

func (c03) Gen(r *Rand, sc *Scenario, tier string) {
	// with caller mutations of earlier results: what the caller does to a tree it was given must not
	// show up in what later calls return
	genVRHistory(r, sc, r.Chance(1, 2))
	// free-function entry points too, and exact depth-limit boundaries
	for i := range sc.Tasks[0] {
		op := &sc.Tasks[0][i]
		if len(op.Kind) > 3 && op.Kind[:3] == "VR." && r.Chance(1, 4) {
			op.Kind = op.Kind[3:]
		}
	}
	if r.Chance(1, 12) {
		n := []int{9999, 10000, 10001}[r.Intn(3)]
		mix := r.Intn(3)
		sc.Docs = append(sc.Docs, deepDoc(mix, n, []string{"1", `"x"`}[r.Intn(2)]))
		entry := "VR.ReadValue"
		if r.Chance(1, 2) {
			entry = []string{"VR.ReadArray", "VR.ReadObject", "VR.ReadArray"}[mix]
		}
		sc.Tasks[0] = append(sc.Tasks[0], Op{Kind: entry, Doc: len(sc.Docs) - 1, Tape: genPoolTape(r, 20)})
	}
}

func sanitizeUTF8(s string) string {
	if utf8.ValidString(s) {
		return s
	}
	var b []byte
	for i := 0; i < len(s); {
		r, w := utf8.DecodeRuneInString(s[i:])
		if r == utf8.RuneError && w == 1 {
			b = append(b, "�"...)
		} else {
			b = append(b, s[i:i+w]...)
		}
		i += w
	}
	return string(b)
}

// sanitizeTree applies U+FFFD replacement to every string and key; collide
// reports whether two keys of one object became equal.
func sanitizeTree(v interface{}, collide *bool) interface{} {
	switch t := v.(type) {
	case string:
		return sanitizeUTF8(t)
	case []interface{}:
		out := make([]interface{}, len(t))
		for i := range t {
			out[i] = sanitizeTree(t[i], collide)
		}
		return out
	case map[string]interface{}:
		out := make(map[string]interface{}, len(t))
		for k, x := range t {
			sk := sanitizeUTF8(k)
			if _, dup := out[sk]; dup {
				*collide = true
			}
			out[sk] = sanitizeTree(x, collide)
		}
		return out
	}
	return v
}

// selfCheckTree cross-checks the model's tree against encoding/json.
func selfCheckTree(d []byte, root *Node, st *Stats) {
	if root.Depth > 10000 || root.AnyRange {
		return
	}
	var jv interface{}
	dec := json.NewDecoder(bytes.NewReader(d))
	if err := dec.Decode(&jv); err != nil {
		panic(harnessError(fmt.Sprintf("encoding/json rejects a document the model accepts: %v: %q", err, clip(string(d), 100))))
	}
	collide := false
	mv := sanitizeTree(refValue(root), &collide)
	if collide {
		return
	}
	st.probe("model-vs-encoding-json-tree-checked")
	if !eqVal(mv, jv) {
		panic(harnessError(fmt.Sprintf("model and encoding/json decode different trees for %q: %s vs %s", clip(string(d), 100), descVal(mv), descVal(jv))))
	}
}

func treeProbes(d []byte, n *Node, st *Stats) {
	switch n.Kind {
	case KStr:
		if !utf8.ValidString(n.Str) {
			st.probe("invalid-utf8-kept")
		}
	case KArr, KObj:
		if len(n.Kids) == 0 {
			st.probe("empty-container")
		}
		seen := map[string]bool{}
		for i, k := range n.Kids {
			if n.Kind == KObj {
				key := n.Keys[i]
				if seen[key.Dec] {
					st.probe("duplicate-key")
				}
				seen[key.Dec] = true
				if bytes.IndexByte(d[key.RawStart:key.RawEnd], '\\') >= 0 {
					st.probe("escaped-key")
				}
			}
			treeProbes(d, k, st)
		}
	}
}

func (c03) Exec(sc *Scenario, st *Stats) *Violation {
	pool := newSimPool(st, nil)
	pool.install()
	defer uninstallPool()
	reader := &rjson.ValueReader{}
	reads := 0
	maxLen := 0
	for _, d := range sc.Docs {
		if d.Len()+len(d.Tail) > maxLen {
			maxLen = d.Len() + len(d.Tail)
		}
	}
	arena := make([]byte, maxLen) // a read buffer the caller reuses: same address for every call that asks for it
	var c03results []interface{}  // trees returned so far, owned (and sometimes modified) by the caller
	for oi, op := range sc.Tasks[0] {
		gcBetween(sc, st, oi)
		if op.Kind == "evict-pool" {
			pool.evictAll()
			st.fault("P-evict")
			st.ev("evict")
			continue
		}
		if op.Kind == "mutate-result" {
			if len(c03results) > 0 {
				i := op.A % len(c03results)
				c03results[i] = mutateTree(c03results[i], op.B, op.C)
				// and every empty object anywhere in it gets a member: an empty container is what a
				// decoder is most tempted to share between results
				fillEmptyObjects(c03results[i])
				st.fault("X-mutate-result")
				st.evi("mutate", op.B)
			}
			continue
		}
		d := sc.Docs[op.Doc]
		data := d.Bytes()
		if op.B&2 != 0 {
			n := copy(arena, data)
			copy(arena[n:], d.Tail)
			data = arena[:n]
			if strings.HasSuffix(d.Class, "-partial") {
				st.probe("partial-message-then-retry-at-the-same-address")
			}
			st.probe("input-in-reused-arena")
			if strings.HasSuffix(d.Class, "-successor") {
				st.probe("next-message-same-address-same-length-other-content")
			}
		}
		if len(data) <= 1<<16 {
			selfCheckDoc(data)
		}
		root, ok := refParse(data, true)
		if ok && len(data) <= 1<<16 {
			selfCheckTree(data, root, st)
		}
		want := ok && root.Depth <= 10000 && !root.AnyRange
		entry := op.Kind
		if len(entry) > 3 && entry[:3] == "VR." {
			entry = entry[3:]
		}
		if ok {
			switch {
			case entry == "ReadObject" && root.Kind != KObj:
				want = false
				if root.Kind == KNull {
					st.probe("typed-entry-rejects-null")
				} else {
					st.probe("typed-entry-rejects-other-root")
				}
			case entry == "ReadArray" && root.Kind != KArr:
				want = false
				if root.Kind == KNull {
					st.probe("typed-entry-rejects-null")
				} else {
					st.probe("typed-entry-rejects-other-root")
				}
			}
			if root.AnyRange {
				st.probe("number-out-of-range-rejected")
			}
			if root.Depth == 10000 {
				st.probe("depth-10000-accepted")
			}
			if root.Depth == 10001 {
				st.probe("depth-10001-rejected")
			}
			if len(data) < 20000 {
				treeProbes(data, root, st)
			}
		}
		pool.tape = NewTape(op.Tape)
		hitsBefore := pool.hits
		st.ev(op.Kind)
		st.ev(d.Class)
		out := runAPIRaw(op.Kind, &opCtx{st: st, reader: reader}, data)
		reads++
		if reads >= 2 || pool.hits > hitsBefore {
			st.NonTrivial = true
		}
		viol := func(class, detail string) *Violation {
			return &Violation{Class: class, Task: 0, Op: oi, Sig: "C03/" + class + "/" + entry,
				Detail: fmt.Sprintf("call %d, %s on %q (class %s): %s", oi, op.Kind, clip(string(data), 100), d.Class, detail)}
		}
		if out.Panic != "" {
			return viol("panic", out.Panic)
		}
		st.evi("ok", b2i(out.OK))
		if out.OK != want {
			why := ""
			if ok {
				why = fmt.Sprintf(" (well-formed, depth %d, numbers-in-range=%v, root kind %d)", root.Depth, !root.AnyRange, root.Kind)
			}
			return viol("verdict", fmt.Sprintf("success=%v, reference says %v%s", out.OK, want, why))
		}
		if !out.OK {
			continue
		}
		if out.P != root.End {
			return viol("offset", fmt.Sprintf("offset %d, the value ends at %d", out.P, root.End))
		}
		if !eqVal(out.Val, refValue(root)) {
			return viol("tree", fmt.Sprintf("decoded %s, reference tree is %s", descVal(out.Val), descVal(refValue(root))))
		}
		if len(c03results) < 16 {
			c03results = append(c03results, out.Val)
		}
	}
	return nil
}

// fillEmptyObjects adds a member to every empty object and an element's worth of garbage to the spare
// capacity of every empty array of a tree the caller owns.
func fillEmptyObjects(v interface{}) {
	switch t := v.(type) {
	case []interface{}:
		for i := range t {
			fillEmptyObjects(t[i])
		}
		if len(t) == 0 && cap(t) > 0 {
			t[:1][0] = "filled-by-caller"
		}
	case map[string]interface{}:
		for _, k := range sortedMapKeys(t) {
			fillEmptyObjects(t[k])
		}
		if len(t) == 0 {
			t["filled-by-caller"] = true
		}
	}
}
