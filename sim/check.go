package main

import "sort"

// Check is one property's simulation: a scenario generator (the only place a
// PRNG is used), an executor that is a pure function of the scenario and the
// code under test, and the descriptive data the evidence file needs.
type Check interface {
	ID() string
	// Budget returns the number of scenarios and the wall-clock seconds a batch
	// of the given tier may use (whichever is reached first).
	Budget(tier string) (runs int, secs int)
	Gen(r *Rand, sc *Scenario, tier string)
	Exec(sc *Scenario, st *Stats) *Violation
	Rule() string
	Level() string
	Assumptions() []string
	// Required lists fault kinds and probes that must have fired at least once
	// in a batch of the given tier; a zero is a failure of the check (exit 2).
	Required(tier string) []string
	// Procs is the GOMAXPROCS a worker of this check runs with.
	Procs() int
}

var registry = map[string]Check{}

func register(c Check) { registry[c.ID()] = c }

func checkIDs() []string {
	var ids []string
	for k := range registry {
		ids = append(ids, k)
	}
	sort.Strings(ids)
	return ids
}

// genScenario is phase one of a run: everything random happens here.
func genScenario(c Check, batchSeed uint64, idx int, tier string) *Scenario {
	seed := runSeed(batchSeed, c.ID(), idx)
	sc := &Scenario{Property: c.ID(), Seed: seed, Batch: batchSeed, Index: idx, Cfg: map[string]int{}}
	c.Gen(NewRand(seed), sc, tier)
	return sc
}

// components is the same for every check: what is real and what is a stub.
var components = map[string]string{
	"package rjson and internal/fp": "real code, compiled from /repo's working tree when the check starts",
	"sync.Pool inside ValueReader":  "stub: the verif seam diverts Put/Get to a simulator-owned, tape-driven pool (except C18 stage B and checks that never decode generically)",
	"handlers":                      "simulator-owned (tape-driven); ValueReader's own HandleArrayValue/HandleObjectValue are real code",
	"callers":                       "simulator tasks: one task, except C18 (2-6 real goroutines, exactly one runnable, chosen from the tape)",
	"allocator / GC":                "real; measured for C19/C20, never a source of decisions",
	"reference models":              "encoding/json streaming decoder, strconv.ParseFloat, recursive-descent RFC 8259 reference parser (model.go)",
	"clock / network / disk":        "n/a: the library reads no clock and does no I/O; the time axis of a run is its event sequence number",
}
