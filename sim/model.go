package main

// Reference model of RFC 8259, written independently of the code under test:
// a plain recursive-descent parser that returns spans and decoded values.
// It is cross-checked against encoding/json (selfCheckDoc) before it is
// trusted for a document; a disagreement is a harness error (exit 2).

import (
	"bytes"
	"encoding/json"
	"fmt"
	"math"
	"strconv"
	"unicode/utf16"
	"unicode/utf8"
)

type NodeKind uint8

const (
	KNull NodeKind = iota
	KTrue
	KFalse
	KNum
	KStr
	KArr
	KObj
)

type Key struct {
	RawStart, RawEnd int // bytes between the quotes: data[RawStart:RawEnd]
	Dec              string
}

type Node struct {
	Kind       NodeKind
	Start, End int
	Kids       []*Node
	Keys       []Key
	Num        float64
	NumRange   bool // literal does not fit float64
	Str        string
	Depth      int  // nesting depth of this subtree: scalar 0, [] 1, [[]] 2
	AnyRange   bool // some number in the subtree does not fit
}

func isWS(c byte) bool { return c == ' ' || c == '\t' || c == '\r' || c == '\n' }

func skipWS(d []byte, i int) int {
	for i < len(d) && isWS(d[i]) {
		i++
	}
	return i
}

func isHex(c byte) bool {
	return (c >= '0' && c <= '9') || (c >= 'a' && c <= 'f') || (c >= 'A' && c <= 'F')
}

// scanString: d[i] == '"'. Returns the index after the closing quote.
func scanString(d []byte, i int) (int, bool) {
	i++
	for i < len(d) {
		c := d[i]
		switch {
		case c == '"':
			return i + 1, true
		case c < 0x20:
			return i, false
		case c == '\\':
			if i+1 >= len(d) {
				return i, false
			}
			switch d[i+1] {
			case '"', '\\', '/', 'b', 'f', 'n', 'r', 't':
				i += 2
			case 'u':
				if i+6 > len(d) {
					return i, false
				}
				for k := 2; k < 6; k++ {
					if !isHex(d[i+k]) {
						return i, false
					}
				}
				i += 6
			default:
				return i, false
			}
		default:
			i++
		}
	}
	return i, false
}

func isDigit(c byte) bool { return c >= '0' && c <= '9' }

// scanNumber: maximal munch; "1." and "1e" are errors, not the value 1.
func scanNumber(d []byte, i int) (int, bool) {
	if i < len(d) && d[i] == '-' {
		i++
	}
	if i >= len(d) {
		return i, false
	}
	switch {
	case d[i] == '0':
		i++
	case d[i] >= '1' && d[i] <= '9':
		for i < len(d) && isDigit(d[i]) {
			i++
		}
	default:
		return i, false
	}
	if i < len(d) && d[i] == '.' {
		i++
		if i >= len(d) || !isDigit(d[i]) {
			return i, false
		}
		for i < len(d) && isDigit(d[i]) {
			i++
		}
	}
	if i < len(d) && (d[i] == 'e' || d[i] == 'E') {
		i++
		if i < len(d) && (d[i] == '+' || d[i] == '-') {
			i++
		}
		if i >= len(d) || !isDigit(d[i]) {
			return i, false
		}
		for i < len(d) && isDigit(d[i]) {
			i++
		}
	}
	return i, true
}

func scanLit(d []byte, i int, lit string) (int, bool) {
	if len(d)-i < len(lit) || string(d[i:i+len(lit)]) != lit {
		return i, false
	}
	return i + len(lit), true
}

func hex4(d []byte) rune {
	var r rune
	for _, c := range d[:4] {
		switch {
		case c >= '0' && c <= '9':
			r = r*16 + rune(c-'0')
		case c >= 'a' && c <= 'f':
			r = r*16 + rune(c-'a'+10)
		default:
			r = r*16 + rune(c-'A'+10)
		}
	}
	return r
}

// refUnescape decodes the content between the quotes of a well-formed string
// token: surrogate pairs combined, unpaired surrogates replaced by U+FFFD,
// every other byte copied unchanged even when it is not valid UTF-8.
func refUnescape(raw []byte) string {
	if bytes.IndexByte(raw, '\\') < 0 {
		return string(raw)
	}
	out := make([]byte, 0, len(raw))
	for i := 0; i < len(raw); {
		c := raw[i]
		if c != '\\' {
			out = append(out, c)
			i++
			continue
		}
		switch raw[i+1] {
		case '"':
			out = append(out, '"')
			i += 2
		case '\\':
			out = append(out, '\\')
			i += 2
		case '/':
			out = append(out, '/')
			i += 2
		case 'b':
			out = append(out, '\b')
			i += 2
		case 'f':
			out = append(out, '\f')
			i += 2
		case 'n':
			out = append(out, '\n')
			i += 2
		case 'r':
			out = append(out, '\r')
			i += 2
		case 't':
			out = append(out, '\t')
			i += 2
		case 'u':
			r := hex4(raw[i+2:])
			i += 6
			if r >= 0xD800 && r <= 0xDBFF {
				// high surrogate: needs \uDC00..\uDFFF right behind it
				if i+6 <= len(raw) && raw[i] == '\\' && raw[i+1] == 'u' &&
					isHex(raw[i+2]) && isHex(raw[i+3]) && isHex(raw[i+4]) && isHex(raw[i+5]) {
					r2 := hex4(raw[i+2:])
					if r2 >= 0xDC00 && r2 <= 0xDFFF {
						r = utf16.DecodeRune(r, r2)
						i += 6
					} else {
						r = utf8.RuneError
					}
				} else {
					r = utf8.RuneError
				}
			} else if r >= 0xDC00 && r <= 0xDFFF {
				r = utf8.RuneError
			}
			var buf [4]byte
			n := utf8.EncodeRune(buf[:], r)
			out = append(out, buf[:n]...)
		}
	}
	return string(out)
}

const refHardDepth = 200000

type refParser struct {
	d       []byte
	build   bool
	tooDeep bool
}

// refParse parses the first value of d (after optional whitespace). ok is
// false when that value is not well-formed. With build == false no tree is
// constructed; only Start/End/Depth of the root are meaningful.
func refParse(d []byte, build bool) (n *Node, ok bool) {
	p := &refParser{d: d, build: build}
	i := skipWS(d, 0)
	n, _, ok = p.value(i, 1)
	if p.tooDeep {
		panic(harnessError("reference parser: nesting beyond " + strconv.Itoa(refHardDepth)))
	}
	return n, ok
}

func (p *refParser) value(i, depth int) (*Node, int, bool) {
	d := p.d
	if i >= len(d) {
		return nil, i, false
	}
	n := &Node{Start: i}
	switch c := d[i]; {
	case c == '"':
		e, ok := scanString(d, i)
		if !ok {
			return nil, e, false
		}
		n.Kind, n.End = KStr, e
		if p.build {
			n.Str = refUnescape(d[i+1 : e-1])
		}
		return n, e, true
	case c == '-' || isDigit(c):
		e, ok := scanNumber(d, i)
		if !ok {
			return nil, e, false
		}
		n.Kind, n.End = KNum, e
		f, err := strconv.ParseFloat(string(d[i:e]), 64)
		if err != nil {
			n.NumRange, n.AnyRange = true, true
		}
		n.Num = f
		return n, e, true
	case c == 't':
		e, ok := scanLit(d, i, "true")
		n.Kind, n.End = KTrue, e
		return n, e, ok
	case c == 'f':
		e, ok := scanLit(d, i, "false")
		n.Kind, n.End = KFalse, e
		return n, e, ok
	case c == 'n':
		e, ok := scanLit(d, i, "null")
		n.Kind, n.End = KNull, e
		return n, e, ok
	case c == '[':
		if depth > refHardDepth {
			p.tooDeep = true
			return nil, i, false
		}
		n.Kind, n.Depth = KArr, 1
		i = skipWS(d, i+1)
		if i < len(d) && d[i] == ']' {
			n.End = i + 1
			return n, i + 1, true
		}
		for {
			k, e, ok := p.value(i, depth+1)
			if !ok {
				return nil, e, false
			}
			if p.build {
				n.Kids = append(n.Kids, k)
			}
			if k.Depth+1 > n.Depth {
				n.Depth = k.Depth + 1
			}
			n.AnyRange = n.AnyRange || k.AnyRange
			i = skipWS(d, e)
			if i >= len(d) {
				return nil, i, false
			}
			if d[i] == ']' {
				n.End = i + 1
				return n, i + 1, true
			}
			if d[i] != ',' {
				return nil, i, false
			}
			i = skipWS(d, i+1)
		}
	case c == '{':
		if depth > refHardDepth {
			p.tooDeep = true
			return nil, i, false
		}
		n.Kind, n.Depth = KObj, 1
		i = skipWS(d, i+1)
		if i < len(d) && d[i] == '}' {
			n.End = i + 1
			return n, i + 1, true
		}
		for {
			if i >= len(d) || d[i] != '"' {
				return nil, i, false
			}
			ke, ok := scanString(d, i)
			if !ok {
				return nil, ke, false
			}
			key := Key{RawStart: i + 1, RawEnd: ke - 1}
			if p.build {
				key.Dec = refUnescape(d[i+1 : ke-1])
			}
			i = skipWS(d, ke)
			if i >= len(d) || d[i] != ':' {
				return nil, i, false
			}
			i = skipWS(d, i+1)
			k, e, ok := p.value(i, depth+1)
			if !ok {
				return nil, e, false
			}
			if p.build {
				n.Keys = append(n.Keys, key)
				n.Kids = append(n.Kids, k)
			}
			if k.Depth+1 > n.Depth {
				n.Depth = k.Depth + 1
			}
			n.AnyRange = n.AnyRange || k.AnyRange
			i = skipWS(d, e)
			if i >= len(d) {
				return nil, i, false
			}
			if d[i] == '}' {
				n.End = i + 1
				return n, i + 1, true
			}
			if d[i] != ',' {
				return nil, i, false
			}
			i = skipWS(d, i+1)
		}
	}
	return nil, i, false
}

// refSkip returns the end offset of the first value of d, whether it is
// well-formed, and its nesting depth. It does not build a tree.
func refSkip(d []byte) (end int, depth int, ok bool) {
	p := &refParser{d: d}
	n, _, ok := p.value(skipWS(d, 0), 1)
	if !ok || p.tooDeep {
		// nesting beyond the model's own hard limit counts as "no exact end known"
		return 0, 0, false
	}
	return n.End, n.Depth, true
}

// refValue turns a model tree into the value the generic decoder must return:
// maps with the last duplicate key winning, slices, float64, string, bool, nil.
func refValue(n *Node) interface{} {
	switch n.Kind {
	case KNull:
		return nil
	case KTrue:
		return true
	case KFalse:
		return false
	case KNum:
		return n.Num
	case KStr:
		return n.Str
	case KArr:
		out := make([]interface{}, 0, len(n.Kids))
		for _, k := range n.Kids {
			out = append(out, refValue(k))
		}
		return out
	case KObj:
		out := make(map[string]interface{}, len(n.Kids))
		for i, k := range n.Kids {
			out[n.Keys[i].Dec] = refValue(k)
		}
		return out
	}
	return nil
}

// eqVal compares two decoded trees structurally: floats by bit pattern, nil
// and empty containers kept apart, map and slice kinds kept apart.
func eqVal(a, b interface{}) bool {
	switch x := a.(type) {
	case nil:
		return b == nil
	case bool:
		y, ok := b.(bool)
		return ok && x == y
	case float64:
		y, ok := b.(float64)
		return ok && math.Float64bits(x) == math.Float64bits(y)
	case string:
		y, ok := b.(string)
		return ok && x == y
	case []interface{}:
		y, ok := b.([]interface{})
		if !ok || len(x) != len(y) || (x == nil) != (y == nil) {
			return false
		}
		for i := range x {
			if !eqVal(x[i], y[i]) {
				return false
			}
		}
		return true
	case map[string]interface{}:
		y, ok := b.(map[string]interface{})
		if !ok || len(x) != len(y) || (x == nil) != (y == nil) {
			return false
		}
		for k, v := range x {
			w, ok := y[k]
			if !ok || !eqVal(v, w) {
				return false
			}
		}
		return true
	}
	return false
}

// cloneVal deep-copies a decoded tree (strings are immutable and shared).
func cloneVal(a interface{}) interface{} {
	switch x := a.(type) {
	case []interface{}:
		if x == nil {
			return []interface{}(nil)
		}
		out := make([]interface{}, len(x))
		for i := range x {
			out[i] = cloneVal(x[i])
		}
		return out
	case map[string]interface{}:
		if x == nil {
			return map[string]interface{}(nil)
		}
		out := make(map[string]interface{}, len(x))
		for k, v := range x {
			out[k] = cloneVal(v)
		}
		return out
	}
	return a
}

func descVal(a interface{}) (out string) {
	// a tree under test may be corrupt (keys rewritten in place behind a map's back): describing it
	// must never take the harness down
	defer func() {
		if r := recover(); r != nil {
			out = fmt.Sprintf("<value that cannot even be printed: %v>", r)
		}
	}()
	b, err := json.Marshal(a)
	if err != nil {
		return fmt.Sprintf("%#v", a)
	}
	return clip(string(b), 200)
}

type harnessError string

func (h harnessError) Error() string { return string(h) }

// selfCheckDoc cross-checks the model's verdict on d against encoding/json.
// It panics with a harnessError on disagreement. Only documents whose model
// depth is at most 10,000 can be compared (encoding/json refuses deeper ones).
func selfCheckDoc(d []byte) {
	n, ok := refParse(d, false)
	if ok && n.Depth > 10000 {
		return
	}
	dec := json.NewDecoder(bytes.NewReader(d))
	dec.UseNumber()
	var v interface{}
	err := dec.Decode(&v)
	jok := err == nil
	if !ok && !jok {
		return
	}
	if ok != jok {
		if deepOpenCount(d) > 10000 {
			// encoding/json's own depth limit may be what speaks here
			return
		}
		panic(harnessError(fmt.Sprintf("model/encoding-json disagree on well-formedness: model=%v json=%v (%v) doc=%q", ok, jok, err, clip(string(d), 120))))
	}
	if int(dec.InputOffset()) != n.End {
		panic(harnessError(fmt.Sprintf("model/encoding-json disagree on end offset: model=%d json=%d doc=%q", n.End, dec.InputOffset(), clip(string(d), 120))))
	}
}

// deepOpenCount is a cheap upper bound on nesting: the number of opening
// brackets. encoding/json's own depth limit makes it reject documents the
// model accepts only when there are more than 10,000 of them.
func deepOpenCount(d []byte) int {
	n := 0
	for _, c := range d {
		if c == '[' || c == '{' {
			n++
		}
	}
	return n
}
