package main

import "github.com/willabides/rjson"

// simPool is the simulator-owned replacement for the sync.Pool inside every
// ValueReader (installed through the verif seam). Which pooled child reader, if
// any, serves a borrow is read from the decision tape; the real pool stays
// empty, so nothing the Go runtime does (GC, per-P caches, the race detector's
// random drops) can influence a run.
type simPool struct {
	lists map[*rjson.ValueReader][]*rjson.ValueReader
	tape  *Tape
	st    *Stats
	// counters (also reported as probes)
	gets, hits, misses, picks, evicts int
}

func newSimPool(st *Stats, tape *Tape) *simPool {
	return &simPool{lists: map[*rjson.ValueReader][]*rjson.ValueReader{}, tape: tape, st: st}
}

func (p *simPool) install() { rjson.SetVerifPool(p) }

func uninstallPool() { rjson.SetVerifPool(nil) }

// pool decisions: d%4: 0 hit (most recently returned), 1 miss, 2 pick the (d/4)-th pooled reader, 3 evict everything (what a GC does) and miss
const (
	pHit   = 0
	pMiss  = 1
	pPick  = 2
	pEvict = 3
)

func (p *simPool) Get(parent *rjson.ValueReader) (*rjson.ValueReader, bool) {
	p.gets++
	l := p.lists[parent]
	if len(l) == 0 {
		p.misses++
		return nil, false
	}
	d := p.tape.Next()
	if d < 0 {
		d = 0
	}
	switch d % 4 {
	case pMiss:
		p.misses++
		if p.st != nil {
			p.st.fault("P-miss")
		}
		return nil, false
	case pEvict:
		p.evicts++
		p.lists = map[*rjson.ValueReader][]*rjson.ValueReader{}
		if p.st != nil {
			p.st.fault("P-evict")
		}
		return nil, false
	case pPick:
		i := (d / 4) % len(l)
		x := l[i]
		p.lists[parent] = append(l[:i:i], l[i+1:]...)
		p.hits++
		if len(l) > 1 && i != len(l)-1 {
			p.picks++
			if p.st != nil {
				p.st.fault("P-pick")
			}
		}
		p.noteHit(x)
		return x, true
	}
	x := l[len(l)-1]
	p.lists[parent] = l[:len(l)-1]
	p.hits++
	p.noteHit(x)
	return x, true
}

func (p *simPool) noteHit(x *rjson.ValueReader) {
	if p.st == nil {
		return
	}
	p.st.probe("pool-hit-serves-a-previously-used-reader")
	// the three probes below look at the implementation's own fields: informational, never required
	// (a refactor that stops retaining a slice or a hint must not break the check)
	s := x.VerifState()
	if s.LastMapSize != 0 || s.LastSliceSize != 0 {
		p.st.probe("pool-hit-with-stale-size-hint")
	}
	if s.StringBufCap != 0 || s.FieldBufCap != 0 {
		p.st.probe("pool-hit-with-used-scratch")
	}
	if s.ArrValCap != 0 {
		p.st.probe("pool-hit-with-retained-slice")
	}
}

func (p *simPool) Put(parent, child *rjson.ValueReader) {
	p.lists[parent] = append(p.lists[parent], child)
}

// evictAll drops every pooled reader: what two GC cycles do to a sync.Pool.
func (p *simPool) evictAll() {
	p.lists = map[*rjson.ValueReader][]*rjson.ValueReader{}
	p.evicts++
}
