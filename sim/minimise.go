package main

import (
	"bytes"
	"fmt"
	"time"
)

// minimise shrinks a violating scenario while the same violation class
// persists. Every candidate is executed in a fresh process (a candidate may
// crash or hang the process, and must not take the minimiser with it).
type minimiser struct {
	c        Check
	class    string
	tries    int
	maxTries int
	deadline time.Time
	best     *Scenario
}

func (m *minimiser) ok(cand *Scenario) bool {
	if m.tries >= m.maxTries || time.Now().After(m.deadline) {
		return false
	}
	m.tries++
	limit := 20 * time.Second
	if m.class == "hang" {
		limit = 90 * time.Second
	}
	v, harness := execFresh(m.c.ID(), cand, limit)
	if m.class == "data-race" || cand.cfg("reproduces-only-sometimes") == 1 {
		// not schedule-deterministic: give a candidate three chances to race
		for i := 0; i < 2 && v == nil && harness == ""; i++ {
			v, harness = execFresh(m.c.ID(), cand, limit)
		}
	}
	if harness != "" || v == nil {
		return false
	}
	if v.Class != m.class {
		return false
	}
	m.best = cand
	return true
}

func minimise(c Check, sc *Scenario, v *Violation) *Scenario {
	m := &minimiser{c: c, class: v.Class, maxTries: 500, deadline: time.Now().Add(90 * time.Second), best: sc.Clone()}
	if v.Class == "hang" {
		m.maxTries = 12
		m.deadline = time.Now().Add(10 * time.Minute)
	}
	for pass := 0; pass < 3; pass++ {
		before := m.tries
		sizeBefore := scenarioSize(m.best)
		m.dropTasks()
		m.dropOps(v)
		m.dropDocs()
		m.shrinkTapes()
		m.shrinkParams()
		m.shrinkDocs()
		m.dropDocs()
		if scenarioSize(m.best) >= sizeBefore || m.tries == before {
			break
		}
	}
	fmt.Printf("minimiser: %d candidate executions\n", m.tries)
	return m.best
}

func scenarioSize(s *Scenario) int {
	n := s.totalDocBytes() + len(s.Sched)
	for _, t := range s.Tasks {
		for _, o := range t {
			n += 8 + len(o.Tape)
		}
	}
	return n
}

func (m *minimiser) dropTasks() {
	for i := len(m.best.Tasks) - 1; i >= 0 && len(m.best.Tasks) > 1; i-- {
		cand := m.best.Clone()
		cand.Tasks = append(cand.Tasks[:i], cand.Tasks[i+1:]...)
		m.ok(cand)
	}
}

func (m *minimiser) dropOps(v *Violation) {
	for ti := range m.best.Tasks {
		// chunks, then singles
		for chunk := len(m.best.Tasks[ti]) / 2; chunk >= 1; chunk /= 2 {
			for i := 0; i+chunk <= len(m.best.Tasks[ti]); {
				if len(m.best.Tasks[ti]) <= 1 {
					break
				}
				cand := m.best.Clone()
				cand.Tasks[ti] = append(cand.Tasks[ti][:i], cand.Tasks[ti][i+chunk:]...)
				if len(cand.Tasks[ti]) == 0 || !m.ok(cand) {
					i += chunk
				}
			}
		}
	}
}

func (m *minimiser) shrinkTapes() {
	for ti := range m.best.Tasks {
		for oi := range m.best.Tasks[ti] {
			if len(m.best.Tasks[ti][oi].Tape) == 0 {
				continue
			}
			cand := m.best.Clone()
			cand.Tasks[ti][oi].Tape = nil
			if m.ok(cand) {
				continue
			}
			// truncate from the end
			for {
				t := m.best.Tasks[ti][oi].Tape
				if len(t) <= 1 {
					break
				}
				cand := m.best.Clone()
				cand.Tasks[ti][oi].Tape = append([]int(nil), t[:len(t)/2]...)
				if !m.ok(cand) {
					break
				}
			}
			for {
				t := m.best.Tasks[ti][oi].Tape
				if len(t) <= 1 {
					break
				}
				cand := m.best.Clone()
				cand.Tasks[ti][oi].Tape = append([]int(nil), t[:len(t)-1]...)
				if !m.ok(cand) {
					break
				}
			}
			// zero entries
			t := m.best.Tasks[ti][oi].Tape
			if len(t) <= 24 {
				for k := range t {
					if m.best.Tasks[ti][oi].Tape[k] == 0 {
						continue
					}
					cand := m.best.Clone()
					cand.Tasks[ti][oi].Tape[k] = 0
					m.ok(cand)
				}
			}
		}
	}
	if len(m.best.Sched) > 0 {
		for {
			t := m.best.Sched
			if len(t) <= 1 {
				break
			}
			cand := m.best.Clone()
			cand.Sched = append([]int(nil), t[:len(t)/2]...)
			if !m.ok(cand) {
				break
			}
		}
	}
}

func (m *minimiser) shrinkParams() {
	for ti := range m.best.Tasks {
		for oi := range m.best.Tasks[ti] {
			o := m.best.Tasks[ti][oi]
			if o.A != 0 {
				cand := m.best.Clone()
				cand.Tasks[ti][oi].A = 0
				m.ok(cand)
			}
			if o.B != 0 {
				cand := m.best.Clone()
				cand.Tasks[ti][oi].B = 0
				m.ok(cand)
			}
			if o.C != 0 {
				cand := m.best.Clone()
				cand.Tasks[ti][oi].C = 0
				m.ok(cand)
			}
		}
	}
}

func (m *minimiser) docUsed(di int) bool {
	for _, t := range m.best.Tasks {
		for _, o := range t {
			if o.Doc == di || o.Doc2 == di {
				return true
			}
		}
	}
	return false
}

func (m *minimiser) shrinkDocs() {
	for di := range m.best.Docs {
		if !m.docUsed(di) {
			continue
		}
		// repeat counts
		for si := range m.best.Docs[di].Segs {
			for _, f := range []func(int) int{func(n int) int { return 1 }, func(n int) int { return n / 2 }, func(n int) int { return n - 1 }} {
				for iter := 0; iter < 10; iter++ {
					n := m.best.Docs[di].Segs[si].N
					nn := f(n)
					if nn >= n || nn < 0 {
						break
					}
					cand := m.best.Clone()
					// keep bracket repeats balanced: scale every segment with the same N
					for sj := range cand.Docs[di].Segs {
						if cand.Docs[di].Segs[sj].N == n {
							cand.Docs[di].Segs[sj].N = nn
						}
					}
					if !m.ok(cand) {
						break
					}
				}
			}
		}
		if len(m.best.Docs[di].Segs) == 1 && m.best.Docs[di].Segs[0].N == 1 {
			m.shrinkBytes(di)
		}
	}
}

func (m *minimiser) setDoc(di int, b []byte) *Scenario {
	cand := m.best.Clone()
	cand.Docs[di].Segs = []Seg{{B: append([]byte(nil), b...), N: 1}}
	return cand
}

func (m *minimiser) shrinkBytes(di int) {
	// structural: replace subtrees by 0, drop members
	for round := 0; round < 6; round++ {
		b := m.best.Docs[di].Segs[0].B
		root, ok := refParse(b, true)
		if !ok || len(b) > 1<<20 {
			break
		}
		changed := false
		var spans [][2]int
		var walk func(n *Node)
		walk = func(n *Node) {
			if n != root {
				spans = append(spans, [2]int{n.Start, n.End})
			}
			for _, k := range n.Kids {
				walk(k)
			}
		}
		walk(root)
		// biggest first
		for i := 0; i < len(spans); i++ {
			for j := i + 1; j < len(spans); j++ {
				if spans[j][1]-spans[j][0] > spans[i][1]-spans[i][0] {
					spans[i], spans[j] = spans[j], spans[i]
				}
			}
			if i > 40 {
				break
			}
		}
		for i, sp := range spans {
			if i > 40 || sp[1]-sp[0] <= 1 {
				break
			}
			nb := append(append(append([]byte(nil), b[:sp[0]]...), '0'), b[sp[1]:]...)
			if m.ok(m.setDoc(di, nb)) {
				changed = true
				break
			}
		}
		if !changed {
			break
		}
	}
	// byte-level ddmin for small documents
	b := m.best.Docs[di].Segs[0].B
	if len(b) > 4096 {
		// at least try halves and the tail
		for len(m.best.Docs[di].Segs[0].B) > 64 {
			b = m.best.Docs[di].Segs[0].B
			if m.ok(m.setDoc(di, b[:len(b)/2])) {
				continue
			}
			if m.ok(m.setDoc(di, b[len(b)/2:])) {
				continue
			}
			break
		}
		return
	}
	for chunk := len(b) / 2; chunk >= 1; chunk /= 2 {
		for i := 0; ; {
			b = m.best.Docs[di].Segs[0].B
			if i+chunk > len(b) {
				break
			}
			nb := append(append([]byte(nil), b[:i]...), b[i+chunk:]...)
			if !m.ok(m.setDoc(di, nb)) {
				i += chunk
			}
		}
	}
	// simplify bytes
	b = m.best.Docs[di].Segs[0].B
	if len(b) <= 64 {
		for i := range b {
			b = m.best.Docs[di].Segs[0].B
			if i >= len(b) {
				break
			}
			for _, r := range []byte{'0', 'a'} {
				if b[i] == r || bytes.IndexByte([]byte(`[]{},:"\ `), b[i]) >= 0 {
					continue
				}
				nb := append([]byte(nil), b...)
				nb[i] = r
				if m.ok(m.setDoc(di, nb)) {
					break
				}
			}
		}
	}
}

// dropDocs replaces unreferenced documents by empty ones (indices stay valid).
func (m *minimiser) dropDocs() {
	changed := false
	cand := m.best.Clone()
	for di := range cand.Docs {
		if !m.docUsed(di) && cand.Docs[di].Len() > 0 {
			cand.Docs[di] = Doc{Segs: []Seg{}, Class: "unused"}
			changed = true
		}
	}
	if changed {
		m.ok(cand)
	}
}
