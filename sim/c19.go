package main

import (
	"bytes"
	"fmt"
	"io"
	"os"
	"os/exec"
	"runtime"
	"strconv"
	"strings"

	"github.com/willabides/rjson"
)

// C19 — scalar reads, skipping and handler traversal allocate nothing on success (reduced scope).

type c19 struct{}

func init() { register(c19{}) }

func (c19) ID() string    { return "C19" }
func (c19) Level() string { return "exploration" }
func (c19) Procs() int    { return 1 }
func (c19) Budget(tier string) (int, int) {
	if tier == "thorough" {
		return 3000000, 600
	}
	return 30000, 90
}
func (c19) Rule() string {
	return "REDUCED SCOPE (inputs sampled): histories of 2-10 operations of the zero-allocation class on one Buffer and one destination slice, so that each measured call runs on resources warmed (and dirtied) by arbitrary earlier calls incl. failing ones. A call is measured when it succeeds and its preconditions hold: the Buffer has completed a top-level, non-re-entrant call on a document at least as deeply nested (otherwise the harness first makes one: Valid on the same document), the destination has spare capacity >= len(input) (slack 0..16 drawn per call, so the exact boundary is hit), the handler does not allocate (declines, returns offsets precomputed outside the measured region, or - the repository's benchmark pattern - runs nested traversals four levels deep with one pre-allocated handler and one warmed Buffer per level). Measurement at GOMAXPROCS=1: runtime.MemStats.Mallocs (a) around the very FIRST call after the preconditions hold (no warm-up call of the measured function; a non-zero reading is repeated up to 3 times on resources rebuilt with identical len/cap, minimum taken) and (b) around 8 further repetitions (integer average, minimum of <= 3 attempts); oracle: 0 for both. Inputs are drawn per conversion path: exact-float, Eisel-Lemire, >19-digit truncated mantissa, halfway / multiprecision fallback, subnormal and overflow-edge literals, 18/19/20-digit integers, strings with every escape kind incl. surrogate pairs, nesting up to 10,000 equal to the warmed depth. Non-trivial: a measurement was taken after at least one earlier operation on the same resources; distinct = distinct hashes of (function, input class, handler mode, slack, warmed-by) sequences."
}
func (c19) Assumptions() []string {
	return []string{
		"reduced scope: the well-formed-input dimension is sampled per conversion path (path labels come from the literal's shape, not from a hook)",
		"a Buffer counts as warmed only by a completed top-level, non-re-entrant call (DESIGN.md 6.5)",
		"Mallocs is process-wide: sporadic runtime allocations are filtered by the integer average and by taking the minimum of up to 3 attempts, which can hide nothing that allocates on every call",
	}
}
func (c19) Required(tier string) []string {
	return []string{"measured", "first-call-measured", "measured-after-failed-call", "path-float-exact", "path-float-eisel-lemire", "path-float-long-mantissa", "path-float-halfway", "path-float-subnormal", "path-int-18", "path-int-19", "path-int-20",
		"path-string-escapes", "path-string-surrogate-pair", "path-depth-equals-warmed", "path-decode-null", "handler-consume", "handler-decline", "handler-nested-per-level-buffers", "dst-slack-0", "dst-aliases-input", "dst-in-same-arena-as-input", "P-evict-by-GC", "cold-process-first-call-measured"}
}

var c19Floats = map[string][]string{
	"float-exact":         {"1.5", "0.25", "123456.789", "1e22", "3", "-7.125", "9007199254740991", "1e-10", "123456789012345e7"},
	"float-eisel-lemire":  {"1.7976931348623157e308", "2.2250738585072014e-308", "1234567890123456789e100", "0.1e-300", "6.02214076e23", "1e23", "8.41e21", "9.5e-310", "123456789.123456789e-200"},
	"float-long-mantissa": {"3.141592653589793238462643383279502884197", "12345678901234567890123456789", "0.10000000000000000000000000001", "100000000000000016777215", "1.00000000000000011102230246251565404236316680908203124", "2." + strings.Repeat("7", 300) + "e-5"},
	"float-halfway":       {"9007199254740993", "1.00000000000000011102230246251565404236316680908203125", "100000000000000016777216", "2.4703282292062328e-324", "1.7976931348623158e308", "0.500000000000000166533453693773481063544750213623046875", "5e-324" + ""},
	"float-subnormal":     {"4.9e-324", "2.2250738585072011e-308", "1e-320", "2.4703282292062327e-324", "1e-400", "-0e-999", "0.0000000000000000000000000000000000000000000000000000000000000000000000000000000000000000000000000000000000000000000000000000000000000000000000000000000000000000000000000000000000000000000000000000000000000000000000000000000000000000000000000000000000000000000000000000000000000000000000000000000000000000000000000000000000001"},
}

func init() {
	z := strings.Repeat("0", 850)
	c19Floats["float-halfway"] = append(c19Floats["float-halfway"],
		"0."+z+"17976931348623157", // > 800 bytes of text, 19+ leading zeros: multiprecision fallback
		"9007199254740993"+z+"e-850",
		"1"+strings.Repeat("0", 400)+"."+strings.Repeat("0", 450)+"1e-400")
	c19Floats["float-subnormal"] = append(c19Floats["float-subnormal"], "0."+strings.Repeat("0", 320)+strings.Repeat("123456789", 60))
}

var c19Ints = map[string][]string{
	"int-18": {"123456789012345678", "999999999999999999", "100000000000000000"},
	"int-19": {"1234567890123456789", "9223372036854775807", "1000000000000000000"},
	"int-20": {"12345678901234567890", "18446744073709551615", "10000000000000000000"},
	"int-sm": {"0", "7", "42", "2147483647", "65535"},
}

var c19ScalarFns = []string{"ReadFloat64", "DecodeFloat64", "ReadInt64", "ReadUint64", "ReadInt32", "ReadUint32", "ReadInt", "ReadUint", "DecodeInt64", "DecodeInt32", "DecodeInt", "DecodeUint64", "DecodeUint32", "DecodeUint", "ReadBool", "DecodeBool", "ReadNull", "NextToken", "NextTokenType"}
var c19DocFns = []string{"Valid", "SkipValue", "SkipValueFast", "HandleArrayValues", "HandleObjectValues"}
var c19StrFns = []string{"ReadStringBytes", "UnescapeStringContent"}

func pickMapKey(r *Rand, m map[string][]string) string {
	ks := make([]string, 0, len(m))
	for k := range m {
		ks = append(ks, k)
	}
	sortStrings(ks)
	return ks[r.Intn(len(ks))]
}

func c19Input(r *Rand, fn string) Doc {
	ws := []string{"", "", " ", "\n\t"}[r.Intn(4)]
	tail := []string{"", "", ",", " ", "]"}[r.Intn(5)]
	if strings.HasPrefix(fn, "Decode") && r.Chance(1, 4) {
		// a Decode function that meets null succeeds too (target untouched)
		return docOf([]byte(ws+"null"+tail), "decode-null")
	}
	switch {
	case fn == "ReadFloat64" || fn == "DecodeFloat64":
		if r.Chance(1, 5) {
			k := pickMapKey(r, c19Ints)
			v := c19Ints[k]
			return docOf([]byte(ws+v[r.Intn(len(v))]+tail), k)
		}
		k := pickMapKey(r, c19Floats)
		v := c19Floats[k]
		neg := ""
		if r.Chance(1, 3) && v[0][0] != '-' {
			neg = "-"
		}
		return docOf([]byte(ws+neg+v[r.Intn(len(v))]+tail), k)
	case strings.Contains(fn, "Int") || strings.Contains(fn, "Uint"):
		k := pickMapKey(r, c19Ints)
		v := c19Ints[k]
		s := v[r.Intn(len(v))]
		if strings.Contains(fn, "Int") && !strings.Contains(fn, "Uint") && r.Chance(1, 3) {
			s = "-" + s
		}
		return docOf([]byte(ws+s+tail), k)
	case fn == "ReadBool" || fn == "DecodeBool":
		return docOf([]byte(ws+[]string{"true", "false"}[r.Intn(2)]+tail), "bool")
	case fn == "ReadNull":
		return docOf([]byte(ws+"null"+tail), "null")
	case fn == "NextToken" || fn == "NextTokenType":
		return docOf([]byte(ws+[]string{"{", "[", `"x"`, "1", "true", "null", ",", ":", "]", "}"}[r.Intn(10)]+tail), "token")
	case fn == "ReadStringBytes" || fn == "UnescapeStringContent":
		cfg := &genCfg{esc: r.Pick(1, 2, 3), rawBad: r.Chance(1, 4)}
		var b strings.Builder
		n := []int{0, 1, 5, 30, 300, 5000}[r.Intn(6)]
		bb := new(bytes.Buffer)
		genStringContent(r, bb, cfg, n)
		class := "str-plain"
		if strings.Contains(bb.String(), `\`) {
			class = "str-escapes"
		}
		if strings.Contains(strings.ToLower(bb.String()), `\ud8`) {
			class = "str-surrogates"
		}
		if fn == "ReadStringBytes" {
			b.WriteString(ws + `"` + bb.String() + `"` + tail)
		} else {
			b.WriteString(bb.String())
		}
		return docOf([]byte(b.String()), class)
	}
	// document functions
	obj := fn == "HandleObjectValues"
	switch r.Pick(4, 3, 2, 2) {
	case 0:
		if fn == "HandleArrayValues" || obj {
			return docOf(withTrailer(r, genContainerDoc(r, obj, memberCount(r), 600)), "container")
		}
		return genDoc(r, "small")
	case 1:
		if fn == "HandleArrayValues" || obj {
			return docOf(genContainerDoc(r, obj, memberCount(r), 4000), "container")
		}
		return genDoc(r, "medium")
	case 2:
		mix := r.Intn(3)
		if obj {
			mix = 1
		} else if fn == "HandleArrayValues" && mix == 1 {
			mix = 0
		}
		return deepDoc(mix, []int{3, 50, 700, 9999, 10000}[r.Intn(5)], []string{"1", `"x\n"`, "[]"}[r.Intn(3)])
	}
	if fn == "HandleArrayValues" || obj {
		return docOf(genContainerDoc(r, obj, r.Range(1, 4), 100), "container")
	}
	return genDoc(r, "tiny")
}

func (c19) Gen(r *Rand, sc *Scenario, tier string) {
	nops := []int{2, 3, 4, 6, 10}[r.Intn(5)]
	var ops []Op
	for i := 0; i < nops; i++ {
		var fn string
		switch r.Pick(4, 4, 3, 1) {
		case 0:
			fn = c19ScalarFns[r.Intn(len(c19ScalarFns))]
		case 1:
			fn = c19DocFns[r.Intn(len(c19DocFns))]
		case 2:
			fn = c19StrFns[r.Intn(len(c19StrFns))]
		case 3:
			fn = []string{"ReadFloat64", "DecodeFloat64"}[r.Intn(2)]
		}
		d := c19Input(r, fn)
		if r.Chance(1, 8) {
			// a failing call in the history (A-abort): not measured, but it dirties the resources
			d = docOf(mutateDoc(r, d.Bytes()), d.Class+"-mut")
		}
		sc.Docs = append(sc.Docs, d)
		op := Op{Kind: fn, Doc: i, A: r.Intn(4), B: []int{0, 0, 1, 3, 16}[r.Intn(5)], C: []int{0, 0, 3, 40, 11, 8}[r.Intn(6)]}
		if op.A == 2 {
			op.Tape = genDecisionTape(r, r.Range(1, 70), false)
		}
		if r.Chance(1, 12) {
			op.Rep = 2 // also measured as the first call of a fresh process
		}
		ops = append(ops, op)
	}
	sc.Tasks = [][]Op{ops}
}

// replayHandler returns precomputed offsets and never allocates.
type replayHandler struct {
	offs []int
	i    int
}

func (h *replayHandler) HandleArrayValue(data []byte) (int, error) {
	if h.i < len(h.offs) {
		o := h.offs[h.i]
		h.i++
		return o, nil
	}
	return 0, nil
}

func (h *replayHandler) HandleObjectValue(_, data []byte) (int, error) {
	if h.i < len(h.offs) {
		o := h.offs[h.i]
		h.i++
		return o, nil
	}
	return 0, nil
}

// recordHandler computes, once and outside any measurement, the offsets a
// well-behaved handler with the given decisions returns.
type recordHandler struct {
	mode int
	tape *Tape
	offs []int
}

func (h *recordHandler) decide(data []byte) int {
	consume := h.mode == 1
	if h.mode == 2 {
		consume = h.tape.Next()%2 == 1
	}
	o := 0
	if consume {
		if end, _, ok := refSkip(data); ok {
			o = end
		}
	}
	h.offs = append(h.offs, o)
	return o
}
func (h *recordHandler) HandleArrayValue(data []byte) (int, error)     { return h.decide(data), nil }
func (h *recordHandler) HandleObjectValue(_, data []byte) (int, error) { return h.decide(data), nil }

// nestHandler is the repository's own benchmark pattern: for a container member it runs a
// nested traversal with the next level's handler and the next level's own Buffer, and
// returns the offset that call reported. Everything it needs is allocated up front.
type nestHandler struct {
	buf   *rjson.Buffer
	child *nestHandler
}

func newNestHandler(levels int) *nestHandler {
	h := &nestHandler{buf: &rjson.Buffer{}}
	if levels > 1 {
		h.child = newNestHandler(levels - 1)
	}
	return h
}

func (h *nestHandler) handle(data []byte) (int, error) {
	if h.child == nil || len(data) == 0 {
		return 0, nil
	}
	switch data[0] {
	case '[':
		return rjson.HandleArrayValues(data, h.child, h.child.buf)
	case '{':
		return rjson.HandleObjectValues(data, h.child, h.child.buf)
	}
	return 0, nil
}
func (h *nestHandler) HandleArrayValue(data []byte) (int, error)     { return h.handle(data) }
func (h *nestHandler) HandleObjectValue(_, data []byte) (int, error) { return h.handle(data) }

type c19ctx struct {
	buf  *rjson.Buffer
	dst  []byte
	rh   *replayHandler
	nh   *nestHandler
	nest bool
	tg   targets
}

var (
	sinkF   float64
	sinkI   int64
	sinkU   uint64
	sinkB   bool
	sinkP   int
	sinkBy  []byte
	sinkErr error
	sinkTT  rjson.TokenType
	sinkTok byte
)

// c19call makes one call of fn; it must not allocate by itself.
func c19call(fn string, x *c19ctx, data []byte) bool {
	var err error
	switch fn {
	case "Valid":
		return rjson.Valid(data, x.buf)
	case "SkipValue":
		sinkP, err = rjson.SkipValue(data, x.buf)
	case "SkipValueFast":
		sinkP, err = rjson.SkipValueFast(data, x.buf)
	case "HandleArrayValues":
		if x.nest {
			sinkP, err = rjson.HandleArrayValues(data, x.nh, x.buf)
			break
		}
		x.rh.i = 0
		sinkP, err = rjson.HandleArrayValues(data, x.rh, x.buf)
	case "HandleObjectValues":
		if x.nest {
			sinkP, err = rjson.HandleObjectValues(data, x.nh, x.buf)
			break
		}
		x.rh.i = 0
		sinkP, err = rjson.HandleObjectValues(data, x.rh, x.buf)
	case "ReadStringBytes":
		sinkBy, sinkP, err = rjson.ReadStringBytes(data, x.dst)
	case "UnescapeStringContent":
		sinkBy, sinkP, err = rjson.UnescapeStringContent(data, x.dst)
	case "ReadFloat64":
		sinkF, sinkP, err = rjson.ReadFloat64(data)
	case "DecodeFloat64":
		sinkP, err = rjson.DecodeFloat64(data, &x.tg.f)
	case "ReadInt64":
		sinkI, sinkP, err = rjson.ReadInt64(data)
	case "ReadUint64":
		sinkU, sinkP, err = rjson.ReadUint64(data)
	case "ReadInt32":
		var v int32
		v, sinkP, err = rjson.ReadInt32(data)
		sinkI = int64(v)
	case "ReadUint32":
		var v uint32
		v, sinkP, err = rjson.ReadUint32(data)
		sinkU = uint64(v)
	case "ReadInt":
		var v int
		v, sinkP, err = rjson.ReadInt(data)
		sinkI = int64(v)
	case "ReadUint":
		var v uint
		v, sinkP, err = rjson.ReadUint(data)
		sinkU = uint64(v)
	case "DecodeInt64":
		sinkP, err = rjson.DecodeInt64(data, &x.tg.i64)
	case "DecodeInt32":
		sinkP, err = rjson.DecodeInt32(data, &x.tg.i32)
	case "DecodeInt":
		sinkP, err = rjson.DecodeInt(data, &x.tg.i)
	case "DecodeUint64":
		sinkP, err = rjson.DecodeUint64(data, &x.tg.u64)
	case "DecodeUint32":
		sinkP, err = rjson.DecodeUint32(data, &x.tg.u32)
	case "DecodeUint":
		sinkP, err = rjson.DecodeUint(data, &x.tg.u)
	case "ReadBool":
		sinkB, sinkP, err = rjson.ReadBool(data)
	case "DecodeBool":
		sinkP, err = rjson.DecodeBool(data, &x.tg.b)
	case "ReadNull":
		sinkP, err = rjson.ReadNull(data)
	case "NextToken":
		sinkTok, sinkP, err = rjson.NextToken(data)
	case "NextTokenType":
		sinkTT, sinkP, err = rjson.NextTokenType(data)
	default:
		panic(harnessError("C19: unknown function " + fn))
	}
	sinkErr = err
	return err == nil
}

func measureAllocs(fn string, x *c19ctx, data []byte) uint64 {
	const reps = 8
	var m0, m1 runtime.MemStats
	best := ^uint64(0)
	for attempt := 0; attempt < 3; attempt++ {
		runtime.ReadMemStats(&m0)
		for i := 0; i < reps; i++ {
			c19call(fn, x, data)
		}
		runtime.ReadMemStats(&m1)
		n := (m1.Mallocs - m0.Mallocs) / reps
		if n < best {
			best = n
		}
		if best == 0 {
			break
		}
	}
	return best
}

// cmdCold1 is the child side of the cold-process measurement: a fresh process whose very first
// call of fn (on the input read from stdin) is measured. Nothing of the library has run in this
// process before, except - for the functions that take a Buffer - one call of a DIFFERENT
// buffer-taking function on the same document, which is what "a Buffer that has already been used
// on a document at least as deeply nested" means. State that is initialised lazily on first use
// (a table built under sync.Once, a pool filled on demand) allocates here and nowhere else.
// Output: "<ok> <mallocs>".
func cmdCold1(args []string) int {
	runtime.GOMAXPROCS(1)
	fn := args[0]
	slack, _ := strconv.Atoi(args[1])
	data, err := io.ReadAll(os.Stdin)
	if err != nil {
		return 2
	}
	data = append(make([]byte, 0, len(data)), data...)
	x := &c19ctx{buf: &rjson.Buffer{}, rh: &replayHandler{}, nh: newNestHandler(1)}
	switch fn {
	case "Valid":
		rjson.SkipValue(data, x.buf)
	case "SkipValue", "SkipValueFast", "HandleArrayValues", "HandleObjectValues":
		rjson.Valid(data, x.buf)
	}
	x.dst = make([]byte, 0, len(data)+slack)
	var a, b runtime.MemStats
	runtime.ReadMemStats(&a)
	runtime.ReadMemStats(&b)
	runtime.GC()
	runtime.ReadMemStats(&a)
	ok := c19call(fn, x, data)
	runtime.ReadMemStats(&b)
	fmt.Printf("%v %d\n", ok, b.Mallocs-a.Mallocs)
	return 0
}

// coldMeasure runs the child up to three times; the reading is the minimum (a deterministic
// first-use allocation shows in every fresh process, noise does not).
func coldMeasure(fn string, slack int, data []byte) (ok bool, allocs uint64, ran bool) {
	best := ^uint64(0)
	for attempt := 0; attempt < 3 && best != 0; attempt++ {
		cmd := exec.Command(os.Args[0], "cold1", fn, strconv.Itoa(slack))
		cmd.Stdin = bytes.NewReader(data)
		out, err := cmd.Output()
		if err != nil {
			return false, 0, false
		}
		var okS string
		var n uint64
		if _, err := fmt.Sscan(string(out), &okS, &n); err != nil {
			return false, 0, false
		}
		if okS != "true" {
			return false, 0, true
		}
		if n < best {
			best = n
		}
	}
	return true, best, true
}

func (c19) Exec(sc *Scenario, st *Stats) *Violation {
	buf := &rjson.Buffer{}
	x := &c19ctx{buf: buf, rh: &replayHandler{}, nh: newNestHandler(4)}
	warmDepth := 0
	lastFailed := false
	done := 0
	var dstBacking []byte
	for oi, op := range sc.Tasks[0] {
		d := sc.Docs[op.Doc]
		data := d.Bytes()
		st.ev(op.Kind)
		st.ev(d.Class)
		isDocFn := op.Kind == "Valid" || op.Kind == "SkipValue" || op.Kind == "SkipValueFast" || op.Kind == "HandleArrayValues" || op.Kind == "HandleObjectValues"
		isStrFn := op.Kind == "ReadStringBytes" || op.Kind == "UnescapeStringContent"
		depth := 0
		if isDocFn {
			_, dp, ok := refSkip(data)
			if !ok {
				// failing call: not measured, but it uses (and may dirty) the Buffer
				func() {
					defer func() { recover() }()
					x.rh.offs = x.rh.offs[:0]
					c19call(op.Kind, x, data)
				}()
				lastFailed = true
				st.evi("fail", 1)
				continue
			}
			depth = dp
			x.nest = false
			if (op.Kind == "HandleArrayValues" || op.Kind == "HandleObjectValues") && op.A == 3 {
				// nested traversals with one warmed Buffer per level (the warm-up run below warms them)
				x.nest = true
				st.probe("handler-nested-per-level-buffers")
			} else if op.Kind == "HandleArrayValues" || op.Kind == "HandleObjectValues" {
				rec := &recordHandler{mode: op.A, tape: NewTape(op.Tape)}
				// the recording pass uses no Buffer, so it cannot warm anything
				if op.Kind == "HandleArrayValues" {
					rjson.HandleArrayValues(data, rec, nil)
				} else {
					rjson.HandleObjectValues(data, rec, nil)
				}
				x.rh.offs = rec.offs
				for _, o := range rec.offs {
					if o != 0 {
						st.probe("handler-consume")
					} else {
						st.probe("handler-decline")
					}
				}
			}
			if warmDepth < depth {
				// precondition: the Buffer has been used on a document at least as deeply nested
				if rjson.Valid(data, buf) {
					warmDepth = depth
				} else if _, err := rjson.SkipValue(data, buf); err == nil {
					warmDepth = depth
				}
				st.ev("warm-by-valid")
			} else if warmDepth == depth && depth > 0 {
				st.probe("path-depth-equals-warmed")
			}
		}
		if isStrFn {
			// destination with spare capacity of at least the input length (+ slack), keeping earlier contents as prefix
			need := op.C + len(data) + op.B
			if cap(dstBacking) < need || op.B == 0 {
				dstBacking = make([]byte, need)
			}
			for i := range dstBacking {
				dstBacking[i] = 0xEE
			}
			x.dst = dstBacking[:op.C:need]
			if op.B == 0 {
				st.probe("dst-slack-0")
			}
			aliased := false
			switch {
			case op.A == 3 && op.Kind == "UnescapeStringContent":
				// the destination is the front of the input's own backing array (in-place unescaping):
				// it has the capacity the property asks for. The call consumes its input, so only the
				// first call is measured and only allocations are judged.
				data = append([]byte(nil), data...)
				x.dst = data[:0]
				aliased = true
				st.probe("dst-aliases-input")
			case op.A == 2:
				// arena layout: input and destination are neighbours in one backing array
				arena := make([]byte, 2*len(data)+op.B+16)
				n := copy(arena, data)
				data = arena[:n:n]
				x.dst = arena[n:n]
				st.probe("dst-in-same-arena-as-input")
			}
			if aliased {
				var a, b runtime.MemStats
				orig := append([]byte(nil), data...)
				best := ^uint64(0)
				okAll := true
				for attempt := 0; attempt < 4 && best != 0; attempt++ {
					copy(data, orig)
					runtime.ReadMemStats(&a)
					ok := c19call(op.Kind, x, data)
					runtime.ReadMemStats(&b)
					okAll = okAll && ok
					if d := b.Mallocs - a.Mallocs; d < best {
						best = d
					}
				}
				if okAll {
					st.probe("measured")
					st.probe("first-call-measured")
					if best != 0 {
						return &Violation{Class: "allocates", Task: 0, Op: oi, Sig: "C19/allocates-first-call/" + op.Kind + "/in-place",
							Detail: fmt.Sprintf("call %d, %s in place (destination = input[:0]) on %q: %d heap allocations", oi, op.Kind, clip(string(orig), 80), best)}
					}
				}
				continue
			}
		}
		if isDocFn && warmDepth < depth {
			// could not be warmed (e.g. beyond the depth limit): executed, not measured
			func() {
				defer func() { recover() }()
				c19call(op.Kind, x, data)
			}()
			continue
		}
		// The FIRST call after the preconditions hold is measured on its own: the property does
		// not grant a warm-up call of the same function. Resource shapes (stack len/cap, dst
		// len/cap) are recorded so that a suspicious measurement can be repeated on an identical state.
		gcFirst := op.C%8 == 3
		if gcFirst {
			st.fault("P-evict-by-GC")
		}
		sl, sc0 := len(buf.VerifStack()), cap(buf.VerifStack())
		dl, dc := len(x.dst), cap(x.dst)
		ok := false
		panicked := ""
		first := ^uint64(0)
		for attempt := 0; attempt < 4 && first != 0; attempt++ {
			if attempt > 0 {
				if isDocFn {
					buf.VerifSetStack(make([]int, sl, sc0))
				}
				if isStrFn {
					nd := make([]byte, dc)
					copy(nd, dstBacking[:dl])
					x.dst = nd[:dl:dc]
				}
			}
			if gcFirst {
				// two GC cycles empty every sync.Pool (what happens between two uses in a real program):
				// the call must not depend on scratch kept in a pool. Repeated before every attempt.
				runtime.GC()
				runtime.GC()
			}
			func() {
				defer func() {
					if r := recover(); r != nil {
						panicked = panicString(r)
					}
				}()
				var a, b runtime.MemStats
				runtime.ReadMemStats(&a)
				ok = c19call(op.Kind, x, data)
				runtime.ReadMemStats(&b)
				if d := b.Mallocs - a.Mallocs; d < first {
					first = d
				}
			}()
			if panicked != "" || !ok {
				break
			}
		}
		if panicked != "" || !ok {
			lastFailed = true
			st.evi("fail", 1)
			continue
		}
		st.probe("first-call-measured")
		if op.Rep == 2 && !x.nest && (!isDocFn || len(x.rh.offs) == 0 || op.A == 0) && len(data) <= 1<<16 {
			// the same call as the very first one of a fresh process
			if cok, n, ran := coldMeasure(op.Kind, op.B, data); ran && cok {
				st.probe("cold-process-first-call-measured")
				if n != 0 {
					return &Violation{Class: "allocates", Task: 0, Op: oi, Sig: "C19/allocates-cold-process/" + op.Kind + "/" + d.Class,
						Detail: fmt.Sprintf("call %d, %s on %q (class %s): %d heap allocations when it is the first such call of a fresh process (minimum over 3 fresh processes); 0 once the process is warm", oi, op.Kind, clip(string(data), 80), d.Class, n)}
				}
			}
		}
		if first != 0 {
			return &Violation{Class: "allocates", Task: 0, Op: oi, Sig: "C19/allocates-first-call/" + op.Kind + "/" + d.Class,
				Detail: fmt.Sprintf("call %d, %s on %q (class %s, handler mode %d, dst slack %d, Buffer stack len %d cap %d): %d heap allocations in the first successful call on resources that already meet the preconditions", oi, op.Kind, clip(string(data), 80), d.Class, op.A, op.B, sl, sc0, first)}
		}
		n := measureAllocs(op.Kind, x, data)
		st.probe("measured")
		st.probe("path-" + strings.TrimSuffix(d.Class, "-mut"))
		if strings.HasPrefix(d.Class, "str-escapes") || strings.HasPrefix(d.Class, "str-surrogates") {
			st.probe("path-string-escapes")
		}
		if strings.HasPrefix(d.Class, "str-surrogates") {
			st.probe("path-string-surrogate-pair")
		}
		if lastFailed {
			st.probe("measured-after-failed-call")
		}
		if done > 0 {
			st.NonTrivial = true
		}
		done++
		lastFailed = false
		st.evi("allocs", int(n))
		if n != 0 {
			return &Violation{Class: "allocates", Task: 0, Op: oi, Sig: "C19/allocates/" + op.Kind + "/" + d.Class,
				Detail: fmt.Sprintf("call %d, %s on %q (class %s, handler mode %d, dst slack %d): %d heap allocations per successful call", oi, op.Kind, clip(string(data), 80), d.Class, op.A, op.B, n)}
		}
	}
	return nil
}
