package main

// The simulator-owned second party of every traversal: a handler whose every
// decision (decline, consume, lie, abort, re-enter the library) is read from
// the decision tape, and which records what it was called with.

import (
	"fmt"
	"io"
	"reflect"
	"runtime"
	"strings"

	"github.com/willabides/rjson"
)

// decision kinds: tape value d, kind = d % 8, arg = d / 8
const (
	dDecline = 0
	dConsume = 1
	dError   = 2
	dHostile = 3
	dReenter = 4
	dNested  = 7 // start a nested traversal on the member and return what it returns (errors propagate)
	dPanic   = 5 // as a DECISION: the handler panics (the caller recovers and goes on using its Buffer)
	// recorded only
	dDeclineForced = 5 // asked to consume but the member is not a well-formed value
	dReentryResult = 6
)

func mkDec(kind, arg int) int { return kind + 8*arg }

// simHandlerPanic is what a panicking simulated handler panics with.
type simHandlerPanic struct{}

func (simHandlerPanic) String() string { return "sim-handler-panic: the handler panicked (recovered by the caller)" }

type simErrPtr struct{ id int }

func (e *simErrPtr) Error() string {
	if e == nil {
		return "sim typed-nil pointer error"
	}
	return fmt.Sprintf("sim pointer error %d", e.id)
}

// error values whose dynamic type is not comparable / not hashable, and a typed nil pointer
type simErrSlice []string

func (e simErrSlice) Error() string { return "sim slice error" }

type simErrMap map[string]int

func (e simErrMap) Error() string { return "sim map error" }

type simErrFunc func() string

func (e simErrFunc) Error() string { return "sim func error" }

// simErrIsAll claims, through errors.Is, to be every error there is (and unwraps to a
// library sentinel): code that classifies handler errors with errors.Is / errors.As
// instead of leaving them alone gets fooled by it.
type simErrIsAll struct{ inner error }

func (e *simErrIsAll) Error() string        { return "sim error that matches everything" }
func (e *simErrIsAll) Is(target error) bool { return true }
func (e *simErrIsAll) Unwrap() error        { return e.inner }

// sameErr is identity of error values: Go == where the dynamic type is comparable,
// the same underlying pointer where it is not (== would panic there).
func sameErr(a, b error) (same bool) {
	defer func() {
		if recover() != nil {
			va, vb := reflect.ValueOf(a), reflect.ValueOf(b)
			same = va.Type() == vb.Type() && va.Pointer() == vb.Pointer() && (va.Kind() != reflect.Slice || va.Len() == vb.Len())
		}
	}()
	return a == b
}

type simErrVal struct{ id int }

func (e simErrVal) Error() string { return fmt.Sprintf("sim value error %d", e.id) }

// nErrKinds error values a simulated handler can return: three of the simulator's own
// (pointer sentinel, comparable struct value, io.EOF), thirteen that real handlers
// return all the time - the library's own error values, obtained by calling the library
// on broken input and passing the error on - three whose dynamic type is not comparable
// (slice, map, func), a typed nil pointer inside a non-nil error interface, three errors that wrap
// a library sentinel or io.EOF with %w, and one whose Is method matches every target.
const nErrKinds = 24

// libErrs is built once at program start: tasks of C18 stage B run handlers
// concurrently, so nothing in the harness may be initialised lazily.
var libErrs = buildLibErrs()

func buildLibErrs() []error {
	var l []error
	add := func(err error) {
		if err == nil {
			err = simErrVal{99}
		}
		l = append(l, err)
	}
	_, err := rjson.SkipValue([]byte(`[1,`), nil)
	add(err)
	_, err = rjson.SkipValue([]byte(`[1 2]`), nil)
	add(err)
	_, err = rjson.SkipValue([]byte(`{"a" 1}`), nil)
	add(err)
	_, err = rjson.SkipValue([]byte(``), nil)
	add(err)
	_, err = rjson.SkipValueFast([]byte(`{"a":`), nil)
	add(err)
	_, err = rjson.ReadNull([]byte(`x`))
	add(err)
	_, _, err = rjson.ReadBool([]byte(`x`))
	add(err)
	_, _, err = rjson.ReadUint64([]byte(`x`))
	add(err)
	_, _, err = rjson.ReadInt64([]byte(`-`))
	add(err)
	_, _, err = rjson.ReadFloat64([]byte(``))
	add(err)
	_, _, err = rjson.ReadObject([]byte(`null`))
	add(err)
	_, _, err = rjson.ReadArray([]byte(`null`))
	add(err)
	_, err = rjson.HandleArrayValues([]byte(`["x"]`), rjson.ArrayValueHandlerFunc(func([]byte) (int, error) { return -1, nil }), nil)
	add(err)
	return l
}

func allSimErrors() []error {
	out := []error{&simErrPtr{1}, simErrVal{2}, io.EOF}
	out = append(out, libErrs...)
	out = append(out, simErrSlice{"a", "b"}, simErrMap{"k": 1}, simErrFunc(func() string { return "f" }), (*simErrPtr)(nil))
	// errors that WRAP a library sentinel (a handler adding context with %w), and one that matches everything
	return append(out, fmt.Errorf("handler context: %w", libErrs[12]), fmt.Errorf("handler context: %w", libErrs[0]), fmt.Errorf("wrapped: %w", io.EOF), &simErrIsAll{inner: libErrs[3]})
}

// CB is one recorded callback (or the result of a re-entrant call made from one).
type CB struct {
	Level  int    // nesting of traversals started from inside callbacks
	Start  int    // offset of the member in the document of its traversal
	AddrOK bool   // the slice handed over really is that suffix of the document
	Key    string // raw key bytes (objects)
	HasKey bool
	Dec    int
	Ret    int
	Err    int // index of the injected error returned by this callback, -1 none
}

func (c CB) String() string {
	k := ""
	if c.HasKey {
		k = fmt.Sprintf(" key=%q", c.Key)
	}
	return fmt.Sprintf("{L%d @%d%s dec=%d ret=%d err=%d addr=%v}", c.Level, c.Start, k, c.Dec, c.Ret, c.Err, c.AddrOK)
}

type livelock struct{ n, limit int }

type hEnv struct {
	st     *Stats
	tape   *Tape
	doc2   []byte        // secondary document for re-entrant calls
	buf    *rjson.Buffer // the enclosing call's Buffer; nil when running without
	spare  *rjson.Buffer // a second, private Buffer for re-entrant calls
	noBuf  bool          // twin mode: every Buffer is nil, scribbles are skipped
	cbs    []CB
	errs   []error
	thrown int // index into errs of the error most recently injected, -1 none
	after  int // callbacks that happened after an error was injected at the same level
	level  int
	quiet  bool // do not record fault counters (second run of a twin pair)
	errLvl int
	// structH: hand the library a struct that implements the handler interface instead of a HandlerFunc adapter
	structH bool
	// set when a callback returned an offset outside its data for a member whose offset the library consumes
	oob      map[int]bool
	oobMiss  string // non-empty: a traversal succeeded although such an offset was returned
	propFail string // non-empty: a nested traversal did not hand back the injected error itself
}

func newHEnv(st *Stats, tape *Tape) *hEnv {
	return &hEnv{st: st, tape: tape, thrown: -1, errLvl: -1}
}

func (e *hEnv) fault(k string) {
	if !e.quiet {
		e.st.fault(k)
	}
}

func (e *hEnv) probe(k string) {
	if !e.quiet {
		e.st.probe(k)
	}
}

func (e *hEnv) bufFor(mode int) *rjson.Buffer {
	if e.noBuf {
		return nil
	}
	switch mode {
	case 0:
		return e.buf
	case 2:
		if e.spare == nil {
			e.spare = &rjson.Buffer{}
		}
		return e.spare
	}
	return nil
}

// hostileOffset is the catalogue of offsets a misbehaving handler returns.
const nHostile = 40

func hostileOffset(idx, lenData, exact, start int) int {
	idx %= nHostile
	if idx >= 24 {
		// small negative offsets: a range check done in unsigned arithmetic, or on the resume
		// position instead of the offset, lets exactly these through
		switch idx {
		case 24, 25, 26, 27, 28, 29, 30, 31, 32, 33:
			return -(idx - 22) // -2 .. -11
		case 34:
			return -start
		case 35:
			return 1 - start
		case 36:
			return -start - 1
		case 37:
			return 2 - start
		case 38:
			return -exact
		default:
			return -lenData
		}
	}
	switch idx % 24 {
	case 0:
		return -1
	case 1:
		return minInt
	case 2:
		return minInt + 1
	case 3:
		if exact > 1 {
			return exact - 1
		}
		return 1
	case 4:
		return exact + 1
	case 5:
		return 1
	case 6:
		return lenData
	case 7:
		return lenData + 1
	case 8:
		if lenData > 1 {
			return lenData - 1
		}
		return 2
	case 9:
		return 2*lenData + 1
	case 10:
		return 1<<31 - 1
	case 11:
		return 1 << 32
	case 12:
		return maxInt / 2
	case 13:
		return maxInt
	case 14, 15, 16, 17, 18, 19:
		return maxInt - (idx%24 - 13)
	case 20:
		return maxInt - start
	case 21:
		return maxInt - start + 1
	case 22:
		return maxInt - start + 2
	default:
		return maxInt - start - 1
	}
}

// scribble overwrites every element of the Buffer's stack, including spare
// capacity, with values derived from pattern, and resets its length.
func scribble(b *rjson.Buffer, pattern int) (resized bool) {
	if b == nil {
		return false
	}
	s := b.VerifStack()
	full := s[:cap(s)]
	x := uint64(pattern)*0x9e3779b97f4a7c15 + 1
	for i := range full {
		x = splitmix(x)
		switch x % 6 {
		case 0:
			full[i] = -int(x>>40) - 1
		case 1:
			full[i] = int(x >> 2)
		case 2:
			full[i] = int(x>>32) % 800 // a plausible state number
		case 3:
			full[i] = -7
		case 4:
			full[i] = minInt
		default:
			full[i] = maxInt
		}
	}
	// resize: 0 keep, 1 empty, 2 one shorter, 3 one, 4 full capacity, 5 nil, 6 half
	n := len(s)
	switch (pattern / 7) % 7 {
	case 1:
		n = 0
	case 2:
		if n > 0 {
			n--
		}
	case 3:
		if cap(s) > 0 {
			n = 1
		}
	case 4:
		n = cap(s)
	case 5:
		b.VerifSetStack(nil)
		return len(s) != 0
	case 6:
		n = n / 2
	}
	b.VerifSetStack(full[:n])
	return n != len(s)
}

// handle is the body of both handler kinds.
func (e *hEnv) handle(doc, key []byte, hasKey bool, data []byte, count *int) (int, error) {
	*count++
	if *count > len(doc)+2 {
		panic(livelock{*count, len(doc) + 2})
	}
	start := len(doc) - len(data)
	addrOK := start >= 0 && start <= len(doc)
	if addrOK && len(data) > 0 {
		addrOK = &doc[start] == &data[0]
	}
	if e.thrown >= 0 {
		e.after++
	}
	rec := CB{Level: e.level, Start: start, AddrOK: addrOK, HasKey: hasKey, Err: -1}
	if hasKey {
		rec.Key = string(key)
	}
	d := e.tape.Next()
	kind, arg := d%8, d/8
	if d < 0 {
		kind, arg = 0, 0
	}
	if kind == dReenter {
		e.reenter(doc, data, arg)
		d2 := e.tape.Next()
		kind, arg = d2%2, 0
		if d2 < 0 {
			kind = 0
		}
	}
	rec.Dec = kind
	var ret int
	var err error
	switch kind {
	case dConsume:
		end, _, ok := refSkip(data)
		if ok {
			ret = end
			e.fault("H-consume")
		} else {
			rec.Dec = dDeclineForced
		}
	case dError:
		end, _, _ := refSkip(data)
		idx := arg % nErrKinds
		if e.errs == nil {
			e.errs = allSimErrors()
		}
		err = e.errs[idx]
		rec.Err = idx
		e.thrown = idx
		e.errLvl = e.level
		e.after = 0
		// accompanying offset: 0, exact, or from the hostile catalogue
		switch o := arg / nErrKinds; {
		case o == 0:
			ret = 0
		case o == 1:
			ret = end
		default:
			ret = hostileOffset(o-2, len(data), end, start)
		}
		e.fault("H-error")
	case dHostile:
		end, _, _ := refSkip(data)
		ret = hostileOffset(arg, len(data), end, start)
		e.fault("H-hostile")
	case dDecline:
		e.fault("H-decline")
	case dPanic:
		// the call is aborted by a panic that unwinds through the library; the caller recovers
		rec.Dec = 9
		e.cbs = append(e.cbs, rec)
		e.fault("H-panic")
		panic(simHandlerPanic{})
	case dNested:
		// only when the member is a well-formed container of the matching kind
		// (otherwise a well-behaved handler has nothing to traverse and declines)
		end, _, ok := refSkip(data)
		wantObj := arg%2 == 1
		if !ok || len(data) == 0 || (wantObj && data[0] != '{') || (!wantObj && data[0] != '[') || e.level >= 6 {
			rec.Dec = dDeclineForced
			break
		}
		_ = end
		e.fault("H-nested")
		idx := len(e.cbs)
		e.cbs = append(e.cbs, rec) // placeholder keeps document order: outer callback first
		e.level++
		cnt := 0
		var p int
		var ierr error
		inner := data
		if wantObj {
			p, ierr = rjson.HandleObjectValues(inner, rjson.ObjectValueHandlerFunc(func(k, d []byte) (int, error) {
				return e.handle(inner, k, true, d, &cnt)
			}), e.bufFor((arg/2)%3))
		} else {
			p, ierr = rjson.HandleArrayValues(inner, rjson.ArrayValueHandlerFunc(func(d []byte) (int, error) {
				return e.handle(inner, nil, false, d, &cnt)
			}), e.bufFor((arg/2)%3))
		}
		e.level--
		if e.oob[e.level+1] {
			if ierr == nil {
				e.oobMiss = fmt.Sprintf("nested traversal at level %d succeeded", e.level+1)
			}
			delete(e.oob, e.level+1)
		}
		if e.thrown >= 0 {
			if ierr == nil || !sameErr(ierr, e.errs[e.thrown]) {
				e.propFail = fmt.Sprintf("nested traversal at level %d returned %v instead of the injected error", e.level+1, ierr)
			}
			rec.Err = e.thrown
		}
		rec.Ret = p
		e.cbs[idx] = rec
		if e.st != nil && !e.quiet {
			e.st.evi("cb", rec.Dec)
		}
		return p, ierr
	default:
		rec.Dec = dDecline
	}
	if kind == dHostile && len(data) > 0 && (data[0] == '"' || data[0] == '[' || data[0] == '{') && (ret < 0 || ret > len(data)) {
		if e.oob == nil {
			e.oob = map[int]bool{}
		}
		e.oob[e.level] = true
		e.probe("hostile-offset-out-of-range-on-consumed-member")
	}
	rec.Ret = ret
	e.cbs = append(e.cbs, rec)
	if e.st != nil && !e.quiet {
		e.st.evi("cb", rec.Dec)
	}
	return ret, err
}

// reenter calls back into the library from inside a callback.
func (e *hEnv) reenter(doc, data []byte, arg int) {
	target := data
	switch arg % 4 {
	case 1:
		if e.doc2 != nil {
			target = e.doc2
		}
	case 2:
		target = doc
	}
	fn := (arg / 4) % 6
	thrownBefore := e.thrown
	buf := e.bufFor((arg / 24) % 3)
	scrib := (arg/72)%2 == 1
	if e.level >= 3 && (fn == 3 || fn == 4) {
		fn = 0
	}
	e.fault("H-reenter")
	if buf != nil && buf == e.buf {
		e.probe("reenter-with-enclosing-buffer")
	}
	before := 0
	if buf != nil {
		before = cap(buf.VerifStack())
	}
	rec := CB{Level: e.level, Start: -1, Dec: dReentryResult, Err: -1, AddrOK: true}
	switch fn {
	case 0:
		p, err := rjson.SkipValue(target, buf)
		rec.Ret = encodePE(p, err)
	case 1:
		p, err := rjson.SkipValueFast(target, buf)
		rec.Ret = encodePE(p, err)
	case 2:
		if rjson.Valid(target, buf) {
			rec.Ret = 1
		}
	case 3, 4:
		e.level++
		cnt := 0
		var p int
		var err error
		if fn == 3 {
			p, err = rjson.HandleArrayValues(target, rjson.ArrayValueHandlerFunc(func(d []byte) (int, error) {
				return e.handle(target, nil, false, d, &cnt)
			}), buf)
		} else {
			p, err = rjson.HandleObjectValues(target, rjson.ObjectValueHandlerFunc(func(k, d []byte) (int, error) {
				return e.handle(target, k, true, d, &cnt)
			}), buf)
		}
		e.level--
		if e.oob[e.level+1] {
			if err == nil {
				e.oobMiss = fmt.Sprintf("re-entrant traversal at level %d succeeded", e.level+1)
			}
			delete(e.oob, e.level+1)
		}
		// an error injected at the inner level is swallowed here: the outer
		// traversal goes on, which is what a real handler may do
		if thrownBefore < 0 && e.thrown >= 0 {
			if err == nil || !sameErr(err, e.errs[e.thrown]) {
				e.propFail = fmt.Sprintf("re-entrant traversal at level %d returned %v instead of the injected error", e.level+1, err)
			}
			e.thrown, e.errLvl = -1, -1
		}
		rec.Ret = encodePE(p, err)
	case 5:
		_, p, err := rjson.ReadValue(target)
		rec.Ret = encodePE(p, err)
	}
	if buf != nil && buf == e.buf && cap(buf.VerifStack()) > before {
		e.probe("reentrant-call-grew-shared-stack")
	}
	e.cbs = append(e.cbs, rec)
	if scrib {
		s := e.tape.Next()
		if !e.noBuf && e.buf != nil {
			if scribble(e.buf, s) {
				e.fault("B-resize")
			}
			e.fault("B-scribble")
			e.probe("scribble-inside-callback")
		}
	}
}

func encodePE(p int, err error) int {
	if err != nil {
		return -1000000 - p
	}
	return p
}

// Outcome is what a call returned, in comparable form.
type Outcome struct {
	Panic  string
	Hang   bool
	OK     bool // err == nil (or the bool result of Valid)
	P      int
	ErrIdx int // index of the injected error if the returned error is identical to it, else -1
	Val    interface{}
	CBs    []CB
	After  int // callbacks after the injected error, same level
	// Err is the error value itself (never compared); ErrText is its message as the caller saw it
	// right after the call returned - filled in and compared by C18 only, where "the same result
	// as when run one after another" includes what the error says.
	Err     error
	ErrText string
}

func (o Outcome) brief() string {
	if o.Panic != "" {
		return "panic: " + clip(o.Panic, 160)
	}
	return fmt.Sprintf("ok=%v p=%d erridx=%d cbs=%d", o.OK, o.P, o.ErrIdx, len(o.CBs))
}

func panicString(r interface{}) string {
	if ll, ok := r.(livelock); ok {
		return fmt.Sprintf("livelock: %d callbacks on a document that allows at most %d", ll.n, ll.limit)
	}
	if he, ok := r.(harnessError); ok {
		panic(he)
	}
	var sb strings.Builder
	fmt.Fprintf(&sb, "%v", r)
	if fa, ok := r.(interface{ Addr() uintptr }); ok && fa.Addr() >= 4096 {
		// a memory fault turned into a panic by debug.SetPanicOnFault (guard.go), not a nil dereference
		fmt.Fprintf(&sb, " [memory fault: unexpected fault address 0x%x]", fa.Addr())
	}
	if _, ok := r.(runtime.Error); ok {
		// first frames that are inside rjson, for the report
		pcs := make([]uintptr, 32)
		n := runtime.Callers(3, pcs)
		fr := runtime.CallersFrames(pcs[:n])
		for {
			f, more := fr.Next()
			if strings.Contains(f.Function, "willabides/rjson") {
				fmt.Fprintf(&sb, " @ %s:%d", f.Function[strings.LastIndex(f.Function, "/")+1:], f.Line)
				break
			}
			if !more {
				break
			}
		}
	}
	return sb.String()
}

// traverse runs HandleArrayValues (kind "arr") or HandleObjectValues ("obj")
// on doc with the simulated handler, under recover.
func (e *hEnv) traverse(kind string, doc []byte) (out Outcome) {
	out.ErrIdx = -1
	defer func() {
		if r := recover(); r != nil {
			out.Panic = panicString(r)
			out.CBs = e.cbs
		}
	}()
	cnt := 0
	var p int
	var err error
	switch {
	case e.structH && kind == "arr":
		p, err = rjson.HandleArrayValues(doc, &structHandler{e: e, doc: doc, cnt: &cnt}, e.bufFor(0))
	case e.structH:
		p, err = rjson.HandleObjectValues(doc, &structHandler{e: e, doc: doc, cnt: &cnt}, e.bufFor(0))
	case kind == "arr":
		p, err = rjson.HandleArrayValues(doc, rjson.ArrayValueHandlerFunc(func(d []byte) (int, error) {
			return e.handle(doc, nil, false, d, &cnt)
		}), e.bufFor(0))
	default:
		p, err = rjson.HandleObjectValues(doc, rjson.ObjectValueHandlerFunc(func(k, d []byte) (int, error) {
			return e.handle(doc, k, true, d, &cnt)
		}), e.bufFor(0))
	}
	out.OK = err == nil
	out.P = p
	out.Err = err
	if err != nil && e.thrown >= 0 && e.errs != nil && sameErr(err, e.errs[e.thrown]) {
		out.ErrIdx = e.thrown
	}
	out.CBs = e.cbs
	out.After = e.after
	if e.oob[0] && err == nil {
		e.oobMiss = "top-level traversal succeeded"
	}
	return out
}

// structHandler implements both handler interfaces directly (no HandlerFunc adapter in between).
type structHandler struct {
	e   *hEnv
	doc []byte
	cnt *int
}

func (s *structHandler) HandleArrayValue(d []byte) (int, error) {
	return s.e.handle(s.doc, nil, false, d, s.cnt)
}

func (s *structHandler) HandleObjectValue(k, d []byte) (int, error) {
	return s.e.handle(s.doc, k, true, d, s.cnt)
}

func diffCBs(a, b []CB) string {
	if len(a) != len(b) {
		return fmt.Sprintf("callback histories differ in length: %d vs %d", len(a), len(b))
	}
	for i := range a {
		if a[i] != b[i] {
			return fmt.Sprintf("callback %d differs: %v vs %v", i, a[i], b[i])
		}
	}
	return ""
}

func diffOutcome(a, b Outcome) string {
	if a.Panic != "" || b.Panic != "" {
		if a.Panic != b.Panic {
			return fmt.Sprintf("panic %q vs %q", clip(a.Panic, 100), clip(b.Panic, 100))
		}
		return ""
	}
	if a.OK != b.OK {
		return fmt.Sprintf("success differs: %v vs %v", a.OK, b.OK)
	}
	if a.P != b.P {
		return fmt.Sprintf("offset differs: %d vs %d", a.P, b.P)
	}
	if a.ErrIdx != b.ErrIdx {
		return fmt.Sprintf("returned error identity differs: %d vs %d", a.ErrIdx, b.ErrIdx)
	}
	if !eqVal(a.Val, b.Val) {
		return fmt.Sprintf("value differs: %s vs %s", descVal(a.Val), descVal(b.Val))
	}
	if a.ErrText != b.ErrText {
		return fmt.Sprintf("error text differs: %q vs %q", a.ErrText, b.ErrText)
	}
	return diffCBs(a.CBs, b.CBs)
}
