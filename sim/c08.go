package main

import (
	"fmt"

	"github.com/willabides/rjson"
)

// C08 — offsets compose: decoding through handlers equals decoding directly.

type c08 struct{}

func init() { register(c08{}) }

func (c08) ID() string    { return "C08" }
func (c08) Level() string { return "exploration" }
func (c08) Procs() int    { return 2 }
func (c08) Budget(tier string) (int, int) {
	if tier == "thorough" {
		return 5000000, 600
	}
	return 40000, 90
}
func (c08) Rule() string {
	return "seeded scenarios: one document and 2-6 composition decoders written only against the public API (peek NextTokenType; per member a tape-chosen strategy: typed reader [ReadString/ReadStringBytes/DecodeString, ReadFloat64/DecodeFloat64, ReadInt64/ReadUint64 with float fallback, ReadBool/DecodeBool, ReadNull], generic ReadValue/ReadObject/ReadArray on the member, SkipValue, SkipValueFast, return 0, or a nested HandleArrayValues/HandleObjectValues traversal with the decoder itself as handler; Buffer pattern nil / one Buffer shared re-entrantly at all depths / one per depth), always returning the offset the callee reported. Oracle (self-differential): direct ReadValue on the same bytes - same final offset for every decoder, deep-equal tree (floats by bit pattern) for read-everything decoders, and read-everything decoders must fail where direct decoding fails for a reason other than the depth limit. Non-trivial: the decoder took at least one per-member decision inside a traversal; distinct = distinct hashes of (document class, strategy sequence, buffer pattern, outcome)."
}
func (c08) Assumptions() []string {
	return []string{
		"self-differential against ReadValue: what ReadValue accepts/returns is C03's business, not C08's",
		"the failure clause is checked only for documents whose bracket nesting is <= 10,000 (ReadValue has a depth limit, nested Handle* calls do not; DESIGN.md 6.3)",
		"values read through integer readers are not compared (offsets are)",
	}
}
func (c08) Required(tier string) []string {
	return []string{"strategy-typed", "strategy-generic", "strategy-skip", "strategy-skipfast", "strategy-decline", "strategy-nested", "strategy-int", "buffer-shared-reentrant", "buffer-per-depth", "direct-failed-readall-checked", "escaped-key-decoded", "nested-depth>=3", "buffers-with-history", "strings-appended-into-one-buffer", "strategy-generic-through-reused-reader"}
}

type skippedMarker struct{}

type composer struct {
	tape     *Tape
	st       *Stats
	bufMode  int
	shared   *rjson.Buffer
	perDepth []*rjson.Buffer
	readAll  bool
	skipped  bool
	decided  int
	scratch  []byte
	acc      []byte // one buffer that several strings are appended to, documented ReadStringBytes use
	maxDepth int
	vr       *rjson.ValueReader // the decoder's long-lived reader (lives for the scenario, has a history)
}

func (c *composer) buf(depth int) *rjson.Buffer {
	switch c.bufMode {
	case 1:
		if c.shared == nil {
			c.shared = &rjson.Buffer{}
		}
		c.st.probe("buffer-shared-reentrant")
		return c.shared
	case 2:
		for len(c.perDepth) <= depth {
			c.perDepth = append(c.perDepth, &rjson.Buffer{})
		}
		c.st.probe("buffer-per-depth")
		return c.perDepth[depth]
	}
	return nil
}

type arrCollector struct {
	c     *composer
	depth int
	out   []interface{}
}

func (a *arrCollector) HandleArrayValue(data []byte) (int, error) {
	v, p, err := a.c.value(data, a.depth, true)
	if err != nil {
		return p, err
	}
	a.out = append(a.out, v)
	return p, nil
}

type objCollector struct {
	c     *composer
	depth int
	out   map[string]interface{}
	kbuf  []byte
}

func (o *objCollector) HandleObjectValue(key, data []byte) (int, error) {
	k := ""
	esc := false
	for _, ch := range key {
		if ch == '\\' {
			esc = true
			break
		}
	}
	if esc {
		var err error
		o.kbuf, _, err = rjson.UnescapeStringContent(key, o.kbuf[:0])
		if err != nil {
			return 0, err
		}
		k = string(o.kbuf)
		o.c.st.probe("escaped-key-decoded")
	} else {
		k = string(key)
	}
	v, p, err := o.c.value(data, o.depth, true)
	if err != nil {
		return p, err
	}
	o.out[k] = v
	return p, nil
}

const (
	sTyped = iota
	sSkip
	sSkipFast
	sDecline
	sGeneric
	sInt
	sNested
	nStrategies
)

// value decodes (or skips) the value at the front of data and returns the
// offset the callee reported.
func (c *composer) value(data []byte, depth int, inHandler bool) (interface{}, int, error) {
	if depth > c.maxDepth {
		c.maxDepth = depth
	}
	tt, _, err := rjson.NextTokenType(data)
	if err != nil {
		return nil, 0, err
	}
	d := c.tape.Next()
	if d < 0 {
		d = 0
	}
	s := d % nStrategies
	sub := d / nStrategies
	if c.readAll && (s == sSkip || s == sSkipFast || s == sDecline) {
		s = sTyped
	}
	if inHandler {
		c.decided++
		c.st.NonTrivial = true
	}
	c.st.evi("s", s)
	switch s {
	case sSkip:
		c.skipped = true
		c.st.probe("strategy-skip")
		p, err := rjson.SkipValue(data, c.buf(depth))
		return skippedMarker{}, p, err
	case sSkipFast:
		c.skipped = true
		c.st.probe("strategy-skipfast")
		p, err := rjson.SkipValueFast(data, c.buf(depth))
		return skippedMarker{}, p, err
	case sDecline:
		c.skipped = true
		if inHandler {
			c.st.probe("strategy-decline")
			return skippedMarker{}, 0, nil
		}
		p, err := rjson.SkipValue(data, nil)
		return skippedMarker{}, p, err
	case sGeneric:
		c.st.probe("strategy-generic")
		if sub%3 == 2 && c.vr != nil {
			// generic decoding of the member through the decoder's own long-lived ValueReader
			c.st.probe("strategy-generic-through-reused-reader")
			switch {
			case tt == rjson.ObjectStartType && sub%2 == 1:
				v, p, err := c.vr.ReadObject(data)
				return normVal(v), p, err
			case tt == rjson.ArrayStartType && sub%2 == 1:
				v, p, err := c.vr.ReadArray(data)
				return normVal(v), p, err
			}
			v, p, err := c.vr.ReadValue(data)
			return v, p, err
		}
		switch {
		case tt == rjson.ObjectStartType && sub%2 == 1:
			v, p, err := rjson.ReadObject(data)
			return normVal(v), p, err
		case tt == rjson.ArrayStartType && sub%2 == 1:
			v, p, err := rjson.ReadArray(data)
			return normVal(v), p, err
		}
		v, p, err := rjson.ReadValue(data)
		return v, p, err
	}
	switch tt {
	case rjson.NullType:
		p, err := rjson.ReadNull(data)
		return nil, p, err
	case rjson.TrueType, rjson.FalseType:
		c.st.probe("strategy-typed")
		if sub%2 == 1 {
			var b bool
			p, err := rjson.DecodeBool(data, &b)
			return b, p, err
		}
		v, p, err := rjson.ReadBool(data)
		return v, p, err
	case rjson.NumberType:
		if s == sInt {
			c.st.probe("strategy-int")
			// try an integer reader first, fall back to the float reader: both validate
			if sub%2 == 0 {
				if _, p, err := rjson.ReadInt64(data); err == nil {
					c.skipped = true // value not compared
					return skippedMarker{}, p, nil
				}
			} else {
				if _, p, err := rjson.ReadUint64(data); err == nil {
					c.skipped = true
					return skippedMarker{}, p, nil
				}
			}
		}
		c.st.probe("strategy-typed")
		if sub%2 == 1 {
			var f float64
			p, err := rjson.DecodeFloat64(data, &f)
			return f, p, err
		}
		v, p, err := rjson.ReadFloat64(data)
		return v, p, err
	case rjson.StringType:
		c.st.probe("strategy-typed")
		switch sub % 4 {
		case 3:
			// append into one growing buffer and slice the new part off
			start := len(c.acc)
			var err error
			var p int
			c.acc, p, err = rjson.ReadStringBytes(data, c.acc)
			if err != nil {
				return nil, p, err
			}
			c.st.probe("strings-appended-into-one-buffer")
			return string(c.acc[start:]), p, nil
		case 1:
			var err error
			var p int
			c.scratch, p, err = rjson.ReadStringBytes(data, c.scratch[:0])
			return string(c.scratch), p, err
		case 2:
			var s string
			p, err := rjson.DecodeString(data, &s, &c.scratch)
			return s, p, err
		}
		v, p, err := rjson.ReadString(data, nil)
		return v, p, err
	case rjson.ArrayStartType:
		c.st.probe("strategy-nested")
		if depth+1 >= 3 {
			c.st.probe("nested-depth>=3")
		}
		a := &arrCollector{c: c, depth: depth + 1, out: []interface{}{}}
		p, err := rjson.HandleArrayValues(data, a, c.buf(depth))
		if err != nil {
			return nil, p, err
		}
		return a.out, p, nil
	case rjson.ObjectStartType:
		c.st.probe("strategy-nested")
		if depth+1 >= 3 {
			c.st.probe("nested-depth>=3")
		}
		o := &objCollector{c: c, depth: depth + 1, out: map[string]interface{}{}}
		p, err := rjson.HandleObjectValues(data, o, c.buf(depth))
		if err != nil {
			return nil, p, err
		}
		return o.out, p, nil
	}
	return nil, 0, fmt.Errorf("unexpected token type %v", tt)
}

// eqSkipping compares a composed tree against the direct one, ignoring members
// the decoder chose to skip.
func eqSkipping(got, want interface{}) bool {
	if _, ok := got.(skippedMarker); ok {
		return true
	}
	switch g := got.(type) {
	case []interface{}:
		w, ok := want.([]interface{})
		if !ok || len(g) != len(w) {
			return false
		}
		for i := range g {
			if !eqSkipping(g[i], w[i]) {
				return false
			}
		}
		return true
	case map[string]interface{}:
		w, ok := want.(map[string]interface{})
		if !ok || len(g) != len(w) {
			return false
		}
		for k, v := range g {
			wv, ok := w[k]
			if !ok || !eqSkipping(v, wv) {
				return false
			}
		}
		return true
	}
	return eqVal(got, want)
}

// bracketDepth is a cheap nesting-depth scan that ignores brackets inside strings.
func bracketDepth(d []byte) int {
	depth, max := 0, 0
	inStr := false
	for i := 0; i < len(d); i++ {
		c := d[i]
		if inStr {
			if c == '\\' {
				i++
			} else if c == '"' {
				inStr = false
			}
			continue
		}
		switch c {
		case '"':
			inStr = true
		case '[', '{':
			depth++
			if depth > max {
				max = depth
			}
		case ']', '}':
			depth--
		}
	}
	return max
}

func (c08) Gen(r *Rand, sc *Scenario, tier string) {
	var d Doc
	switch r.Pick(3, 6, 4, 1, 4, 1, 1) {
	case 6:
		if r.Chance(1, 4) {
			d = genHugeStringDoc(r)
		} else {
			d = docOf(withTrailer(r, genHomogeneousArray(r)), "homogeneous-array")
		}
	case 0:
		d = genDoc(r, "tiny")
	case 1:
		d = docOf(withTrailer(r, genTreeBytes(r, r.Range(10, 300))), "small")
	case 2:
		d = docOf(withTrailer(r, genTreeBytes(r, r.Range(300, 3000))), "medium")
	case 3:
		d = genDoc(r, "deep")
	case 4:
		d = genMutated(r, []string{"tiny", "small", "medium"}[r.Intn(3)])
	case 5:
		d = docOf(withTrailer(r, genContainerDoc(r, r.Chance(1, 2), memberCount(r), 1500)), "container")
	}
	sc.Docs = []Doc{d}
	n := r.Range(2, 6)
	var ops []Op
	if r.Chance(1, 3) {
		// the Buffers the decoders share have a history: earlier calls on other documents,
		// including failing and depth-limited ones (Buffer reuse is the documented style)
		k := r.Range(1, 3)
		for i := 0; i < k; i++ {
			var dd Doc
			switch r.Pick(2, 2, 1, 1) {
			case 0:
				dd = genDoc(r, "toodeep")
			case 1:
				dd = genDoc(r, "deep")
			case 2:
				dd = genMutated(r, "small")
				if r.Chance(1, 2) {
					// a record that breaks off part-way: members already stored when the read fails
					b := genContainerDoc(r, r.Chance(2, 3), r.Range(2, 8), 300)
					dd = docCut(r, b, b[:len(b)*r.Range(3, 9)/10], "container-truncated")
				}
			default:
				dd = docRep("container-deep-members", `[`, 1, deepDoc(r.Intn(3), []int{9999, 10001, 12000}[r.Intn(3)], "1").Bytes(), 1, `,1]`, 1)
			}
			sc.Docs = append(sc.Docs, dd)
			ops = append(ops, Op{Kind: "prior-use", Doc: len(sc.Docs) - 1, A: r.Intn(5), B: r.Intn(2)})
		}
	}
	variant := -1
	if d.Len() > 0 && d.Len() < 5000 && r.Chance(1, 5) {
		// the read buffer held another message of the same length at the same address just before
		// (and the shared Buffers / the long-lived reader were used on it)
		b := d.Bytes()
		nb, ok := swapSiblingsDoc(r, b)
		if !ok || r.Chance(1, 3) {
			nb, ok = succDoc(r, b)
		}
		if !ok || r.Chance(1, 4) {
			nb = append([]byte(nil), b...)
			for k := 0; k < 8; k++ {
				i := r.Intn(len(nb))
				switch nb[i] {
				case ',', ':':
					nb[i] = ' '
				case ' ':
					nb[i] = ','
				case '"':
					nb[i] = 'q'
				default:
					continue
				}
				break
			}
		}
		sc.Docs = append(sc.Docs, docOf(nb, d.Class+"-samelen"))
		variant = len(sc.Docs) - 1
		if r.Chance(1, 2) {
			ops = append(ops, Op{Kind: "prior-use", Doc: variant, A: r.Intn(3), B: r.Intn(2), C: 1})
		}
		sc.Cfg["one-read-buffer"] = 1
	}
	for i := 0; i < n; i++ {
		op := Op{Kind: "compose", Doc: 0, A: r.Intn(3)}
		if i == 0 || r.Chance(1, 3) {
			op.B = 1 // read everything
		}
		tl := r.Range(0, 80)
		style := r.Pick(3, 1, 1, 1)
		for k := 0; k < tl; k++ {
			var s int
			switch style {
			case 0:
				s = r.Intn(nStrategies)
			case 1:
				s = sTyped
			case 2:
				s = []int{sTyped, sGeneric, sInt, sNested}[r.Intn(4)]
			case 3:
				s = []int{sSkip, sSkipFast, sDecline, sTyped}[r.Intn(4)]
			}
			op.Tape = append(op.Tape, s+nStrategies*r.Intn(12))
		}
		if variant >= 0 {
			// a stream of two messages through one read buffer: the same decoder (same strategy tape, same
			// Buffers, same long-lived reader) first decodes the other message, then this one
			first := op
			first.Doc = variant
			ops = append(ops, first)
		}
		ops = append(ops, op)
	}
	sc.Tasks = [][]Op{ops}
}

func (c08) Exec(sc *Scenario, st *Stats) *Violation {
	pool := newSimPool(nil, nil)
	pool.install()
	defer uninstallPool()
	st.ev(sc.Docs[0].Class)
	// the reference for every message a decoder is run on: direct decoding of a fresh copy
	directOf := map[int]Outcome{}
	shallowOf := map[int]bool{}
	refFor := func(di int) (Outcome, bool) {
		if o, ok := directOf[di]; ok {
			return o, shallowOf[di]
		}
		o := runAPI("ReadValue", &opCtx{st: st}, sc.Docs[di].Bytes())
		directOf[di] = o
		shallowOf[di] = bracketDepth(sc.Docs[di].Bytes()) <= 9000 // clearly below the depth limit, whose exact position is C03's business
		return o, shallowOf[di]
	}
	if o, _ := refFor(0); o.Panic != "" {
		return nil // totality is C10's
	}
	// Buffers live for the whole scenario: decoders that ask for a shared / per-depth Buffer get these
	shared := &rjson.Buffer{}
	vr := &rjson.ValueReader{}
	var perDepth []*rjson.Buffer
	var arena []byte // one read buffer for every message of the scenario (same address), when asked for
	inBuf := func(b []byte) []byte {
		if sc.cfg("one-read-buffer") != 1 {
			return b
		}
		if cap(arena) < len(b) {
			arena = make([]byte, 0, 2*len(b)+16)
		}
		st.probe("messages-share-one-read-buffer")
		return append(arena[:0], b...)
	}
	for oi, op := range sc.Tasks[0] {
		if op.Kind == "prior-use" {
			// an earlier call of some buffer-taking function on another document, with the shared Buffers
			pd := inBuf(sc.Docs[op.Doc].Bytes())
			targets := []*rjson.Buffer{shared}
			for len(perDepth) < 3 {
				perDepth = append(perDepth, &rjson.Buffer{})
			}
			if op.B == 1 {
				targets = append(targets, perDepth[0], perDepth[1], perDepth[2])
			}
			for _, b := range targets {
				x := &opCtx{st: st, tape: NewTape(nil), buf: b, quiet: true}
				runAPI(bufOps[op.A%len(bufOps)], x, pd)
			}
			// ... and the decoder's long-lived reader has read (or failed on) that document too
			runAPIRaw(vrOps[op.A%len(vrOps)], &opCtx{st: st, reader: vr}, pd)
			st.probe("buffers-with-history")
			st.evi("prior", op.A)
			continue
		}
		if op.Doc >= len(sc.Docs) {
			continue
		}
		d := sc.Docs[op.Doc]
		direct, shallow := refFor(op.Doc)
		if direct.Panic != "" {
			continue
		}
		st.evi("direct", b2i(direct.OK))
		data := inBuf(d.Bytes())
		c := &composer{tape: NewTape(op.Tape), st: st, bufMode: op.A, readAll: op.B == 1, shared: shared, perDepth: perDepth, vr: vr}
		st.evi("prog", op.A*2+op.B)
		var val interface{}
		var p int
		var err error
		panicked := ""
		func() {
			defer func() {
				if r := recover(); r != nil {
					panicked = panicString(r)
				}
			}()
			val, p, err = c.value(data, 0, false)
		}()
		perDepth = c.perDepth
		viol := func(class, detail string) *Violation {
			return &Violation{Class: class, Task: 0, Op: oi, Sig: "C08/" + class,
				Detail: fmt.Sprintf("composition decoder %d (buffers=%d readAll=%v tape %s) on %q: %s", oi, op.A, c.readAll, clipInts(op.Tape, 16), clip(string(data), 100), detail)}
		}
		if direct.OK {
			if panicked != "" {
				return viol("composer-panicked", panicked)
			}
			if err != nil {
				return viol("composer-failed", fmt.Sprintf("direct decoding succeeds (offset %d) but the decoder failed at %d: %v", direct.P, p, err))
			}
			if p != direct.P {
				return viol("offset", fmt.Sprintf("decoder finished at offset %d, direct decoding at %d", p, direct.P))
			}
			if c.readAll && !c.skipped {
				if !eqVal(normVal(val), direct.Val) {
					return viol("tree", fmt.Sprintf("read-everything decoder rebuilt %s, direct decoding gives %s", descVal(val), descVal(direct.Val)))
				}
			} else if !eqSkipping(val, direct.Val) {
				return viol("tree", fmt.Sprintf("the members the decoder did read differ: %s vs direct %s", descVal(val), descVal(direct.Val)))
			}
		} else if shallow && c.readAll && panicked == "" {
			st.probe("direct-failed-readall-checked")
			if err == nil {
				return viol("composer-accepted", fmt.Sprintf("direct decoding fails but a read-everything decoder succeeded with offset %d", p))
			}
		}
	}
	return nil
}
