package main

import (
	"bytes"
	"fmt"
	"regexp"
	"strings"

	"github.com/willabides/rjson"
)

// C10 — every entry point is total and memory-safe on hostile input and handlers.

type c10 struct{}

func init() { register(c10{}) }

func (c10) ID() string    { return "C10" }
func (c10) Level() string { return "fault_enumeration" }
func (c10) Procs() int    { return 2 }
func (c10) Budget(tier string) (int, int) {
	if tier == "thorough" {
		return 5000000, 600
	}
	return 24000, 90
}
func (c10) Rule() string {
	return "seeded scenarios of 1-6 operations drawn from the whole exported API on hostile documents (nesting 10,001..1,000,000 in every bracket mixture, unbalanced openers, megabyte runs of one token, every truncation of small documents, random bytes, mutations) with: a handler that returns integers from the hostile catalogue (negative, MinInt, exact+-1, mid-token, len, len+1, 2*len, 2^31-1, 2^32, MaxInt/2, MaxInt-k incl. the values that wrap p+pp) or errors or re-enters the library, at every callback; a Buffer whose stack is scribbled and resized between calls and inside callbacks; dirty destination slices. Safety invariants are checked after every operation; a per-run watchdog turns non-termination into a finding. A run is non-trivial when a fault fired; distinct = distinct hashes of (operation, document class, outcome class, decisions)."
}
func (c10) Assumptions() []string {
	return []string{
		"quantifies over byte strings, Buffer states and handler return values - not over nil handlers / nil Decode targets / a zero ValueReader used directly as a handler (API misuse, DESIGN.md 6.6)",
		"scalar members (number/bool/null) ignore the handler's offset by design, so the 'offset does not fit => error' clause is checked for string/array/object members (DESIGN.md 6.2)",
		"non-termination is detected by a wall-clock watchdog (60 s quick / 180 s thorough per scenario, then re-run alone with 10 min)",
	}
}
func (c10) Required(tier string) []string {
	req := []string{"H-hostile", "H-error", "H-reenter", "B-scribble", "B-resize", "D-dirty", "M-guard", "hostile-offset-out-of-range-on-consumed-member", "doc-toodeep", "doc-megatoken", "doc-truncated", "doc-random", "doc-cut-off-part-in-spare-capacity", "doc-from-the-entry-points-own-domain-cut-mid-token", "hostile-tiny-inputs-after-a-successful-read-on-one-reader"}
	return req
}

var hostileOps = apiNames(nil)

func genHostileDoc(r *Rand, tier string) Doc {
	if r.Chance(1, 60) {
		// more distinct field names than any table of a "reasonable" size holds
		return genDistinctKeysDoc(r, r.Intn(100000), []int{300, 1100, 2100, 5000}[r.Intn(4)])
	}
	switch r.Pick(3, 1, 4, 3, 4, 3, 1) {
	case 0: // far too deep, balanced
		ns := []int{10001, 10002, 20000, 100000}
		if tier == "thorough" && r.Chance(1, 10) {
			ns = append(ns, 1000000)
		}
		d := deepDoc(r.Intn(4), ns[r.Intn(len(ns))], []string{"1", "[]", "{}", `"x"`, ""}[r.Intn(5)])
		if r.Chance(1, 2) {
			d = deepDocAny(r, ns[r.Intn(len(ns))], []string{"1", "[]", "{}", `"x"`, ""}[r.Intn(5)], 0)
		}
		d.Class = "toodeep"
		return d
	case 1: // openers only
		n := []int{9999, 10000, 10001, 50000, 300000}[r.Intn(5)]
		open := []string{"[", `{"a":`, `[{"a":`, `[1,`, `{"a":[`, " [ "}[r.Intn(6)]
		return docRep("toodeep", open, n)
	case 2: // megabyte runs of one token
		n := []int{1000, 70000, 1 << 20}[r.Pick(3, 2, 1)]
		switch r.Intn(9) {
		case 0:
			return docRep("megatoken", `"`, 1, "a", n, `"`, 1)
		case 1:
			return docRep("megatoken", "1", n)
		case 2:
			return docRep("megatoken", "0.", 1, "7", n)
		case 3:
			return docRep("megatoken", "1e", 1, "9", n)
		case 4:
			return docRep("megatoken", " ", n, "1", 1)
		case 5:
			return docRep("megatoken", `"`, 1, `é`, n/6, `"`, 1)
		case 6:
			return docRep("megatoken", `"`, 1, `\\`, n/2, `"`, r.Intn(2))
		case 7:
			return docRep("megatoken", `"`, 1, `😀`, n/12, `\ud83d`, 1)
		default:
			return docRep("megatoken", "[", 1, "1,", n/2, "1]", 1)
		}
	case 3: // truncation of a small document
		b := genTreeBytes(r, 120)
		cut := b
		if len(b) > 0 {
			cut = b[:r.Intn(len(b)+1)]
		}
		return docCut(r, b, cut, "truncated")
	case 4: // random bytes, biased to structural ones
		n := r.Range(0, 40)
		b := make([]byte, n)
		for i := range b {
			if r.Chance(1, 3) {
				b[i] = byte(r.Intn(256))
			} else {
				b[i] = mutBytes[r.Intn(len(mutBytes))]
			}
		}
		return docOf(b, "random")
	case 5:
		return genMutated(r, []string{"tiny", "small", "medium"}[r.Intn(3)])
	}
	return genDoc(r, []string{"tiny", "small", "medium"}[r.Intn(3)])
}

// cutInsideEscape cuts b right after a backslash or inside a \uXXXX escape if it has one
// (an incomplete escape at the very end of the input), else at a random place.
func cutInsideEscape(r *Rand, b []byte) []byte {
	var at []int
	for i := 0; i < len(b); i++ {
		if b[i] == '\\' {
			at = append(at, i)
			i++
		}
	}
	if len(at) == 0 || r.Chance(1, 4) {
		if len(b) == 0 {
			return b
		}
		return b[:r.Intn(len(b)+1)]
	}
	i := at[r.Intn(len(at))]
	n := 1
	if i+1 < len(b) && b[i+1] == 'u' {
		n = r.Range(1, 11) // \ \u \u1 ... and into a following low-surrogate escape
	}
	if i+n > len(b) {
		n = len(b) - i
	}
	return b[:i+n]
}

// genDomainDoc draws an input from the natural domain of one entry point (string content for the
// unescaping helpers, one string token for the string readers, one number literal for the numeric
// readers, a literal for ReadBool/ReadNull), damaged the way partial input is: cut in the middle of
// an escape, an exponent, a literal. Whole documents rarely end in those places.
func genDomainDoc(r *Rand, name string) (Doc, bool) {
	switch name {
	case "UnescapeStringContent", "StdLibCompatibleString", "StdLibCompatibleStringBytes":
		cfg := &genCfg{esc: 2, rawBad: r.Chance(1, 3)}
		var b bytes.Buffer
		genStringContent(r, &b, cfg, []int{1, 2, 4, 10, 40}[r.Intn(5)])
		full := append([]byte(nil), b.Bytes()...)
		return docCut(r, full, cutInsideEscape(r, full), "domain-string-content-cut"), true
	case "ReadString", "ReadStringBytes", "DecodeString", "ReadValue", "VR.ReadValue":
		cfg := &genCfg{esc: 2, rawBad: r.Chance(1, 3)}
		var b bytes.Buffer
		b.WriteByte('"')
		genStringContent(r, &b, cfg, []int{1, 2, 4, 10, 40}[r.Intn(5)])
		b.WriteByte('"')
		full := append([]byte(nil), b.Bytes()...)
		return docCut(r, full, cutInsideEscape(r, full), "domain-string-token-cut"), true
	case "ReadFloat64", "ReadInt64", "ReadUint64", "ReadInt32", "ReadUint32", "ReadInt", "ReadUint",
		"DecodeFloat64", "DecodeInt64", "DecodeUint64", "DecodeInt32", "DecodeUint32", "DecodeInt", "DecodeUint":
		var b bytes.Buffer
		genNumber(r, &b)
		full := append([]byte(nil), b.Bytes()...)
		cut := full[:r.Intn(len(full)+1)]
		if r.Chance(1, 3) {
			cut = append(append([]byte(nil), cut...), []string{"e", "E+", ".", "-", "e-", "+", "x", "\x00"}[r.Intn(8)]...)
			return docOf(cut, "domain-number-cut"), true
		}
		return docCut(r, full, cut, "domain-number-cut"), true
	case "ReadBool", "ReadNull", "DecodeBool", "NextToken", "NextTokenType", "TokenType.String":
		lit := []string{"true", "false", "null", " \ttrue", "\r\nnull", "  false"}[r.Intn(6)]
		return docCut(r, []byte(lit), []byte(lit[:r.Intn(len(lit)+1)]), "domain-literal-cut"), true
	}
	return Doc{}, false
}

func genHostileTape(r *Rand, n int) []int {
	t := make([]int, n)
	if n > 0 && r.Chance(1, 6) {
		// the same hostile answer at every callback: the way to drive a traversal in circles
		d := mkDec(dHostile, r.Intn(nHostile))
		t = make([]int, 200)
		for i := range t {
			t[i] = d
		}
		return t
	}
	for i := range t {
		switch r.Pick(3, 3, 8, 2, 3, 2) {
		case 0:
			t[i] = dDecline
		case 1:
			t[i] = dConsume
		case 2:
			t[i] = mkDec(dHostile, r.Intn(nHostile))
		case 3:
			t[i] = mkDec(dError, r.Intn(nErrKinds)+nErrKinds*r.Intn(nHostile+2))
		case 4:
			t[i] = mkDec(dReenter, r.Intn(144))
		case 5:
			t[i] = mkDec(dNested, r.Intn(6))
		}
	}
	return t
}

func (c10) Gen(r *Rand, sc *Scenario, tier string) {
	nops := []int{1, 1, 2, 3, 6}[r.Intn(5)]
	faultFree := r.Chance(1, 8)
	var ops []Op
	if sc.Index%16 == 0 {
		// every truncation of one small document through one entry point
		b := genTreeBytes(r, 60)
		name := hostileOps[r.Intn(len(hostileOps))]
		for i := 0; i <= len(b) && i <= 80; i++ {
			sc.Docs = append(sc.Docs, docOf(b[:i], "truncated"))
			ops = append(ops, Op{Kind: name, Doc: i, A: r.Intn(2), Tape: genDecisionTape(r, 8, true)})
		}
		sc.Tasks = [][]Op{ops}
		return
	}
	if !faultFree && r.Chance(1, 10) {
		// history on the one long-lived ValueReader: a direct read that succeeds (size hints, scratch,
		// retained containers), then hostile tiny inputs through the same entry points
		n := r.Range(2, 6)
		for i := 0; i < n; i++ {
			name := vrOps[r.Intn(len(vrOps))]
			var d Doc
			if i == 0 || r.Chance(1, 3) {
				d = docOf(genContainerDoc(r, name == "VR.ReadObject" || (name == "VR.ReadValue" && r.Chance(1, 2)), r.Range(1, 12), 300), "container")
			} else {
				tiny := []string{"", " ", "\n\t", "[", "{", "]", "}", ",", "n", "\"", "[]", "{}", "null", "0", "\x00", "[1", "{\"a\"", "\xff"}
				d = docOf([]byte(tiny[r.Intn(len(tiny))]), "random")
			}
			sc.Docs = append(sc.Docs, d)
			ops = append(ops, Op{Kind: name, Doc: i, A: r.Intn(4), B: r.Intn(60)})
		}
		sc.Tasks = [][]Op{ops}
		sc.Cfg["reader-history"] = 1
		return
	}
	for i := 0; i < nops; i++ {
		if faultFree {
			sc.Docs = append(sc.Docs, genDoc(r, []string{"tiny", "small", "medium"}[r.Intn(3)]))
		} else {
			sc.Docs = append(sc.Docs, genHostileDoc(r, tier))
		}
		name := hostileOps[r.Intn(len(hostileOps))]
		if r.Chance(1, 3) {
			name = []string{"HandleArrayValues", "HandleObjectValues"}[r.Intn(2)]
		}
		if !faultFree && (name == "HandleArrayValues" || name == "HandleObjectValues") && r.Chance(2, 3) {
			sc.Docs[i] = genTraversalDoc(r, name == "HandleObjectValues", true)
		}
		if !faultFree && r.Chance(1, 2) {
			if d, ok := genDomainDoc(r, name); ok {
				sc.Docs[i] = d
			}
		}
		op := Op{Kind: name, Doc: i, Doc2: r.Intn(i + 1)}
		if !faultFree {
			op.A = r.Intn(2)
			if r.Chance(1, 3) {
				op.A |= 2 // input ends at a page boundary in front of an inaccessible page, and is read-only
			}
			op.B = r.Intn(60)
			if r.Chance(1, 2) {
				op.C = r.Range(1, 1<<20)
			}
			op.Tape = genHostileTape(r, r.Range(0, 40))
		} else {
			op.Tape = genDecisionTape(r, r.Range(0, 20), true)
		}
		ops = append(ops, op)
	}
	sc.Tasks = [][]Op{ops}
}

var digitsRe = regexp.MustCompile(`[-0-9]+`)

func (c10) Exec(sc *Scenario, st *Stats) *Violation {
	pool := newSimPool(nil, nil)
	pool.install()
	defer uninstallPool()
	shared := &rjson.Buffer{}
	x := &opCtx{st: st, tg: &targets{}, reader: &rjson.ValueReader{}}
	var scratch []byte
	if sc.cfg("reader-history") == 1 {
		st.probe("hostile-tiny-inputs-after-a-successful-read-on-one-reader")
	}
	for oi, op := range sc.Tasks[0] {
		d := sc.Docs[op.Doc]
		data := d.Bytes()
		switch {
		case strings.HasPrefix(d.Class, "toodeep"):
			st.probe("doc-toodeep")
		case d.Class == "megatoken":
			st.probe("doc-megatoken")
		case d.Class == "truncated":
			st.probe("doc-truncated")
		case d.Class == "random":
			st.probe("doc-random")
		case strings.HasPrefix(d.Class, "domain-"):
			st.probe("doc-from-the-entry-points-own-domain-cut-mid-token")
		}
		if len(d.Tail) > 0 {
			st.probe("doc-cut-off-part-in-spare-capacity")
		}
		x.tape = NewTape(op.Tape)
		x.buf = nil
		x.henv = nil
		x.structH = op.B%2 == 1
		if op.A&2 != 0 && len(d.Tail) == 0 {
			if g, ok := theGuardRing.place(data); ok {
				data = g
				st.fault("M-guard")
			}
		}
		if op.A&1 == 1 {
			x.buf = shared
			if op.C != 0 {
				if scribble(shared, op.C) {
					st.fault("B-resize")
				}
				st.fault("B-scribble")
			}
		}
		if op.Doc2 < len(sc.Docs) && sc.Docs[op.Doc2].Len() <= 1<<16 {
			x.doc2 = sc.Docs[op.Doc2].Bytes()
		} else {
			x.doc2 = nil
		}
		x.dst = mkDst(op.B, len(data))
		if op.B != 0 {
			st.fault("D-dirty")
			scratch = mkDst(op.B/2+1, len(data))
			x.scratch = &scratch
		} else {
			x.scratch = nil
		}
		st.ev(op.Kind)
		st.ev(d.Class)
		out := runAPI(op.Kind, x, data)
		viol := func(class, sigExtra, detail string) *Violation {
			return &Violation{Class: class, Task: 0, Op: oi, Sig: "C10/" + class + "/" + op.Kind + "/" + sigExtra,
				Detail: fmt.Sprintf("%s on %d-byte document %q (class %s) tape %v: %s", op.Kind, len(data), clip(string(data), 60), d.Class, clipInts(op.Tape, 12), detail)}
		}
		if strings.HasPrefix(out.Panic, "sim-handler-panic") {
			continue // the handler's own panic, recovered by the caller: not the library's
		}
		if out.Panic != "" {
			class := "panic"
			if strings.HasPrefix(out.Panic, "livelock") {
				class = "livelock"
			}
			return viol(class, digitsRe.ReplaceAllString(clip(out.Panic, 60), "N"), out.Panic)
		}
		st.evi("ok", b2i(out.OK))
		if out.OK && op.Kind != "Valid" && (out.P < 0 || out.P > len(data)) {
			return viol("offset-out-of-range", "", fmt.Sprintf("returned offset %d with a nil error; input length is %d", out.P, len(data)))
		}
		if x.henv != nil && x.henv.oobMiss != "" {
			return viol("oob-offset-accepted", "", "a handler returned an offset outside its data for a string/array/object member and "+x.henv.oobMiss)
		}
	}
	return nil
}

func clipInts(t []int, n int) string {
	if len(t) <= n {
		return fmt.Sprint(t)
	}
	return fmt.Sprintf("%v…(+%d)", t[:n], len(t)-n)
}
