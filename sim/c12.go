package main

import (
	"bytes"
	"fmt"
	"strings"
	"math"

	"github.com/willabides/rjson"
)

// C12 — Decode functions write the target only on success and leave it alone on null (reduced scope).

type c12 struct{}

func init() { register(c12{}) }

func (c12) ID() string    { return "C12" }
func (c12) Level() string { return "exploration" }
func (c12) Procs() int    { return 2 }
func (c12) Budget(tier string) (int, int) {
	if tier == "thorough" {
		return 800000000, 420
	}
	return 80000, 90
}
func (c12) Rule() string {
	return "REDUCED SCOPE (inputs sampled): state-machine runs of 1-12 Decode calls on targets that live for the whole run and therefore hold whatever earlier calls left in them (fault T-prior: never the zero value - targets start at seeded non-zero values and carry results forward). Inputs per call: a value the reader accepts, null behind every JSON-whitespace prefix, near-misses (nul, nulL, nullx, Null), wrong-type tokens, out-of-range numbers, truncations, empty input. DecodeString's scratch buffer is dirty and reused. Oracle (self-differential + target model): the corresponding Read* on a fresh copy - reader ok => same offset, target == reader's value; else input starts with JSON whitespace + the four bytes null (decided by the harness) => nil error, offset just after it, target unchanged; else error and target unchanged. Non-trivial: the target held a non-zero prior value when a failing or null call was made; distinct = distinct hashes of (function, input class, outcome, prior-class)."
}
func (c12) Assumptions() []string {
	return []string{"reduced scope: the Read* function of the same tree is the reference for what the reader accepts (C05/C04/C06/C13 own that); C12 decides only the store/no-store/offset behaviour around it"}
}
func (c12) Required(tier string) []string {
	return []string{"T-prior", "null-with-nonzero-prior", "error-with-nonzero-prior", "success-overwrites-prior", "near-miss-null", "null-behind-whitespace", "dirty-scratch", "scratch-reused-across-decodes", "prefix-then-null", "prior-derived-from-the-input", "input-in-a-read-buffer-with-stale-bytes-behind-it"}
}

var decodeFns = []string{"DecodeBool", "DecodeFloat64", "DecodeInt64", "DecodeInt32", "DecodeInt", "DecodeUint64", "DecodeUint32", "DecodeUint", "DecodeString"}

func genDecodeInput(r *Rand, fn string) Doc {
	okVals := map[string][]string{
		"DecodeBool":    {"true", "false", " true", "\nfalse ", "true,", "falsex"},
		"DecodeFloat64": {"0", "-0", "1.5", "1e10", "-2.5E-3", "123456789012345678901234567890", "4.9e-324", "1.7976931348623157e308", " 7 ", "3]"},
		"DecodeInt64":   {"0", "-1", "42", "9223372036854775807", "-9223372036854775808", " 17", "5,", "-0"},
		"DecodeInt32":   {"0", "-1", "2147483647", "-2147483648", "12 "},
		"DecodeInt":     {"0", "-5", "9223372036854775807", "77}"},
		"DecodeUint64":  {"0", "1", "18446744073709551615", "123456789012345678", "1234567890123456789", " 9"},
		"DecodeUint32":  {"0", "4294967295", "65536"},
		"DecodeUint":    {"0", "18446744073709551615", "31"},
		"DecodeString":  {`""`, `"a"`, `"hello"`, `"\n"`, `"é😀"`, ` "x" `, `"a\\b",`, "\"\xff\xfe\"", `"hello\nworld"`, `"HELLO\nwor\x"`, `"\tab\u00e9\ud83d\ude00 long enough to matter"`, `"\tAB\u00"`},
	}
	wrong := []string{"true", "1", `"s"`, "[]", "{}", "[1]", "-", "1.5", "1e2", "-1", "x", ":", ","}
	rangeErr := []string{"9223372036854775808", "-9223372036854775809", "18446744073709551616", "2147483648", "-2147483649", "4294967296", "1e999", "-1e999", "99999999999999999999999", "1.0", "1e0", "-0.0"}
	nulls := []string{"null", " null", "\tnull", "\r\nnull", " \t\r\n null", "null ", "null,", "nullx", "null1", "nullnull", "\n\n\nnull]"}
	near := []string{"nul", "nulL", "Null", "NULL", "n", "nu", "nul ", " nul", "nil", "nulll"[:3], "\vnull", "\fnull", "nu ll", "\x00null", "/null", "n\x00ll"}
	// what a reader half-consumes before giving up, directly followed by null
	prefixNull := []string{"-null", "tnull", "fnull", "trunull", "1e999null", "-1e999null", "4294967296null", "2147483648null", "18446744073709551616null", "9223372036854775808null",
		`"ab\u12null`, `"abnull`, "1.null", "1enull", "1e+null", "-null ", " -null", "nnull", "nunull", "nulnull", "0null", "1null", `"a"null`, "truenull", "[null", "{null", ",null", ":null"}
	// every numeric function sees the boundary values of every numeric type
	numPool := []string{"0", "-0", "1", "-1", "127", "128", "-128", "-129", "255", "256", "32767", "32768", "-32768", "-32769", "65535", "65536",
		"2147483647", "2147483648", "-2147483648", "-2147483649", "4294967295", "4294967296",
		"9223372036854775807", "9223372036854775808", "-9223372036854775807", "-9223372036854775808", "-9223372036854775809",
		"18446744073709551615", "18446744073709551616", "-18446744073709551615", "123456789012345678", "1234567890123456789", "12345678901234567890", "99999999999999999999",
		"1.0", "1e0", "-0.0", "1e999", "-1e999", "0.5", "1e-400", "00", "-", "+1", "01", "1.", "1e", "0x10"}
	if fn == "DecodeString" && r.Chance(1, 4) {
		// short plain strings over Latin-1 / Latin Extended letters (two-byte UTF-8): many pairs differ in
		// one bit of one byte, the neighbours of anything that packs or hashes string bytes
		n := r.Range(1, 4)
		var b bytes.Buffer
		b.WriteByte('"')
		for i := 0; i < n; i++ {
			b.WriteString(string(rune(0xA0 + r.Intn(0x160))))
		}
		b.WriteByte('"')
		return docOf(b.Bytes(), "accepted")
	}
	if fn == "DecodeString" && r.Chance(1, 3) {
		// string tokens of 10 .. 5 000 content bytes (around 64 and powers of two), plain or with escapes,
		// intact or with one raw control byte / a missing closing quote somewhere
		n := []int{10, 63, 64, 65, 127, 128, 200, 1024, 5000}[r.Intn(9)]
		cfg := &genCfg{esc: r.Pick(3, 1, 1)}
		var b bytes.Buffer
		b.WriteByte('"')
		for b.Len() < n {
			genStringContent(r, &b, cfg, 8)
		}
		b.WriteByte('"')
		tok := b.Bytes()
		switch r.Pick(3, 3, 1) {
		case 1:
			tok[1+r.Intn(len(tok)-2)] = []byte{0x00, 0x0a, 0x1f, 0x09}[r.Intn(4)]
			return docOf(tok, "long-string-with-control-byte")
		case 2:
			return docCut(r, tok, tok[:r.Range(1, len(tok)-1)], "truncated")
		}
		return docOf(tok, "accepted")
	}
	if fn != "DecodeString" && fn != "DecodeBool" && r.Chance(1, 3) {
		s := numPool[r.Intn(len(numPool))]
		return docOf([]byte([]string{"", " ", "\n"}[r.Intn(3)]+s+[]string{"", ",", " ", "]", "x"}[r.Intn(5)]), "numeric-boundary")
	}
	switch r.Pick(6, 5, 3, 3, 3, 2, 1, 3) {
	case 7:
		return docOf([]byte(prefixNull[r.Intn(len(prefixNull))]), "prefix-then-null")
	case 0:
		v := okVals[fn]
		return docOf([]byte(v[r.Intn(len(v))]), "accepted")
	case 1:
		return docOf([]byte(nulls[r.Intn(len(nulls))]), "null")
	case 2:
		s := near[r.Intn(len(near))]
		if len(s) < 4 && s == "null"[:len(s)] {
			// a null that has only partly arrived; the rest may sit right behind the input
			return docCut(r, []byte("null"), []byte(s), "near-miss-null")
		}
		return docOf([]byte(s), "near-miss-null")
	case 3:
		return docOf([]byte(wrong[r.Intn(len(wrong))]), "wrong-type")
	case 4:
		return docOf([]byte(rangeErr[r.Intn(len(rangeErr))]), "range")
	case 5:
		v := okVals[fn]
		s := v[r.Intn(len(v))]
		return docCut(r, []byte(s), []byte(s[:r.Intn(len(s)+1)]), "truncated")
	}
	return docMut(r, []byte(okVals[fn][0]), "mutated")
}

func (c12) Gen(r *Rand, sc *Scenario, tier string) {
	nops := []int{1, 2, 3, 5, 8, 12}[r.Intn(6)]
	sc.Cfg["prior"] = r.Range(1, 1000)
	var ops []Op
	for i := 0; i < nops; i++ {
		fn := decodeFns[r.Intn(len(decodeFns))]
		sc.Docs = append(sc.Docs, genDecodeInput(r, fn))
		op := Op{Kind: fn, Doc: i, B: r.Intn(41), A: b2i(r.Chance(1, 3))}
		if r.Chance(1, 5) {
			// T-prior, correlated: the target already holds something derived from the input that is
			// about to be decoded (1 its raw text, 2 the very value, 3 the value with the other sign of zero / case)
			op.C = r.Range(1, 3)
		}
		ops = append(ops, op)
	}
	sc.Tasks = [][]Op{ops}
}

func isLiteralNull(d []byte) (bool, int) {
	i := skipWS(d, 0)
	if len(d)-i >= 4 && d[i] == 'n' && d[i+1] == 'u' && d[i+2] == 'l' && d[i+3] == 'l' {
		return true, i + 4
	}
	return false, 0
}

func (c12) Exec(sc *Scenario, st *Stats) *Violation {
	seed := sc.cfg("prior")
	if seed == 0 {
		seed = 1
	}
	tg := &targets{b: seed%3 != 0, f: float64(seed) + 0.25, i64: -int64(seed), i32: int32(seed), i: -seed * 3, u64: uint64(seed) << 20, u32: uint32(seed), u: uint(seed) * 7, s: fmt.Sprintf("prior-%d", seed)}
	if seed%2 == 0 {
		tg.f = math.Copysign(0, -1) // -0: a store of +0 is visible
	}
	var scratch []byte
	// a read buffer the caller reuses: what lies behind the current input is whatever earlier, longer
	// inputs left there (it starts out full of digits and literal fragments)
	arena := []byte(strings.Repeat(`7654321098null,true"x"-0.5e3`, 12))
	for oi, op := range sc.Tasks[0] {
		d := sc.Docs[op.Doc]
		data, ref := d.Bytes(), d.Bytes()
		if op.A == 1 && len(d.Tail) == 0 && len(data)+16 <= len(arena) {
			data = arena[:copy(arena, data)]
			st.probe("input-in-a-read-buffer-with-stale-bytes-behind-it")
		}
		if op.C != 0 {
			correlatePrior(tg, op.Kind, op.C, d.Bytes())
			st.probe("prior-derived-from-the-input")
		}
		prior := *tg
		prior.s = forcedCopy(tg.s) // a target that aliases the scratch buffer must not fool the comparison
		if op.Kind == "DecodeString" && op.B != 0 {
			if op.B%3 == 0 || scratch == nil {
				scratch = mkDst(op.B, len(data))
			} else {
				st.probe("scratch-reused-across-decodes")
			}
			st.probe("dirty-scratch")
		}
		st.ev(op.Kind)
		st.ev(d.Class)
		var p int
		var err error
		var got, priorV, readV interface{}
		var rp int
		var rerr error
		panicked := ""
		func() {
			defer func() {
				if r := recover(); r != nil {
					panicked = panicString(r)
				}
			}()
			switch op.Kind {
			case "DecodeBool":
				p, err = rjson.DecodeBool(data, &tg.b)
				got, priorV = tg.b, prior.b
				readV, rp, rerr = wrap3(rjson.ReadBool(ref))
			case "DecodeFloat64":
				p, err = rjson.DecodeFloat64(data, &tg.f)
				got, priorV = tg.f, prior.f
				readV, rp, rerr = wrap3(rjson.ReadFloat64(ref))
			case "DecodeInt64":
				p, err = rjson.DecodeInt64(data, &tg.i64)
				got, priorV = tg.i64, prior.i64
				readV, rp, rerr = wrap3(rjson.ReadInt64(ref))
			case "DecodeInt32":
				p, err = rjson.DecodeInt32(data, &tg.i32)
				got, priorV = tg.i32, prior.i32
				readV, rp, rerr = wrap3(rjson.ReadInt32(ref))
			case "DecodeInt":
				p, err = rjson.DecodeInt(data, &tg.i)
				got, priorV = tg.i, prior.i
				readV, rp, rerr = wrap3(rjson.ReadInt(ref))
			case "DecodeUint64":
				p, err = rjson.DecodeUint64(data, &tg.u64)
				got, priorV = tg.u64, prior.u64
				readV, rp, rerr = wrap3(rjson.ReadUint64(ref))
			case "DecodeUint32":
				p, err = rjson.DecodeUint32(data, &tg.u32)
				got, priorV = tg.u32, prior.u32
				readV, rp, rerr = wrap3(rjson.ReadUint32(ref))
			case "DecodeUint":
				p, err = rjson.DecodeUint(data, &tg.u)
				got, priorV = tg.u, prior.u
				readV, rp, rerr = wrap3(rjson.ReadUint(ref))
			case "DecodeString":
				var sp *[]byte
				if op.B != 0 {
					sp = &scratch
				}
				p, err = rjson.DecodeString(data, &tg.s, sp)
				got, priorV = tg.s, prior.s
				readV, rp, rerr = wrap3(rjson.ReadString(ref, nil))
				if rs, ok := readV.(string); ok {
					readV = forcedCopy(rs)
				}
			default:
				panic(harnessError("C12: unknown function " + op.Kind))
			}
		}()
		if panicked != "" {
			continue // totality is C10's
		}
		viol := func(class, detail string) *Violation {
			return &Violation{Class: class, Task: 0, Op: oi, Sig: "C12/" + class + "/" + op.Kind,
				Detail: fmt.Sprintf("call %d, %s on %q with prior target value %v: %s", oi, op.Kind, clip(string(ref), 60), priorV, detail)}
		}
		nonzeroPrior := !eqVal(normVal(priorV), normVal(zeroOf(priorV)))
		if nonzeroPrior {
			st.Faults["T-prior"]++
		}
		isNull, nullEnd := isLiteralNull(ref)
		switch {
		case rerr == nil:
			st.evi("path", 0)
			if nonzeroPrior && !eqVal(normVal(priorV), normVal(readV)) {
				st.probe("success-overwrites-prior")
			}
			if err != nil {
				return viol("success-not-stored", fmt.Sprintf("the reader accepts the input (offset %d) but Decode returned error %v", rp, err))
			}
			if p != rp {
				return viol("offset", fmt.Sprintf("Decode returned offset %d, the reader %d", p, rp))
			}
			if !eqVal(normVal(got), normVal(readV)) {
				return viol("wrong-value-stored", fmt.Sprintf("target is %v, the reader returned %v", got, readV))
			}
		case isNull:
			st.evi("path", 1)
			if nonzeroPrior {
				st.probe("null-with-nonzero-prior")
				st.NonTrivial = true
			}
			if skipWS(ref, 0) > 0 {
				st.probe("null-behind-whitespace")
			}
			if err != nil {
				return viol("null-rejected", fmt.Sprintf("input begins with null but Decode returned error %v", err))
			}
			if p != nullEnd {
				return viol("null-offset", fmt.Sprintf("Decode returned offset %d, null ends at %d", p, nullEnd))
			}
			if !eqVal(normVal(got), normVal(priorV)) {
				return viol("target-written-on-null", fmt.Sprintf("target changed to %v", got))
			}
		default:
			st.evi("path", 2)
			if nonzeroPrior {
				st.probe("error-with-nonzero-prior")
				st.NonTrivial = true
			}
			if d.Class == "near-miss-null" {
				st.probe("near-miss-null")
			}
			if d.Class == "prefix-then-null" {
				st.probe("prefix-then-null")
			}
			if err == nil {
				return viol("error-swallowed", fmt.Sprintf("neither the reader nor null matches, but Decode returned offset %d with nil error", p))
			}
			if !eqVal(normVal(got), normVal(priorV)) {
				return viol("target-written-on-error", fmt.Sprintf("target changed to %v", got))
			}
		}
	}
	return nil
}

// correlatePrior puts into the target of fn a value derived from the input the next call will see.
func correlatePrior(tg *targets, fn string, mode int, data []byte) {
	defer func() { recover() }() // readers under test may panic on odd input; the prior then stays as it was
	switch fn {
	case "DecodeString":
		i := skipWS(data, 0)
		switch mode {
		case 1: // the raw, still escaped text between the quotes (up to the last quote if the token is broken)
			if i < len(data) && data[i] == '"' {
				end, ok := scanString(data, i)
				if ok {
					tg.s = string(data[i+1 : end-1])
				} else if j := bytes.LastIndexByte(data, '"'); j > i {
					tg.s = string(data[i+1 : j])
				} else {
					tg.s = string(data[i+1:])
				}
			}
		case 2:
			if v, _, err := rjson.ReadString(append([]byte(nil), data...), nil); err == nil {
				tg.s = forcedCopy(v)
			}
		case 3:
			if v, _, err := rjson.ReadString(append([]byte(nil), data...), nil); err == nil {
				tg.s = forcedCopy(v) + "x"
			}
		}
	case "DecodeFloat64":
		if v, _, err := rjson.ReadFloat64(append([]byte(nil), data...)); err == nil {
			tg.f = v
			if mode == 3 {
				tg.f = -v // for zeros: the other sign, which compares equal
			}
		}
	case "DecodeBool":
		if v, _, err := rjson.ReadBool(append([]byte(nil), data...)); err == nil {
			tg.b = v != (mode == 3)
		}
	case "DecodeInt64":
		if v, _, err := rjson.ReadInt64(append([]byte(nil), data...)); err == nil {
			tg.i64 = v
		}
	case "DecodeInt32":
		if v, _, err := rjson.ReadInt32(append([]byte(nil), data...)); err == nil {
			tg.i32 = v
		}
	case "DecodeInt":
		if v, _, err := rjson.ReadInt(append([]byte(nil), data...)); err == nil {
			tg.i = v
		}
	case "DecodeUint64":
		if v, _, err := rjson.ReadUint64(append([]byte(nil), data...)); err == nil {
			tg.u64 = v
		}
	case "DecodeUint32":
		if v, _, err := rjson.ReadUint32(append([]byte(nil), data...)); err == nil {
			tg.u32 = v
		}
	case "DecodeUint":
		if v, _, err := rjson.ReadUint(append([]byte(nil), data...)); err == nil {
			tg.u = v
		}
	}
}

func wrap3[T any](v T, p int, err error) (interface{}, int, error) { return v, p, err }

func zeroOf(v interface{}) interface{} {
	switch v.(type) {
	case bool:
		return false
	case float64:
		return float64(0)
	case int64:
		return int64(0)
	case int32:
		return int32(0)
	case int:
		return int(0)
	case uint64:
		return uint64(0)
	case uint32:
		return uint32(0)
	case uint:
		return uint(0)
	case string:
		return ""
	}
	return nil
}
