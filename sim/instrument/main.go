// Command instrument copies the non-test Go sources of the rjson repository
// into a scratch directory and inserts a call to verifYield(site) at every
// function entry, at the top of every loop body and at every Ragel state label
// (stN:, reached once per consumed byte). The copy is what C18's cooperative
// scheduler runs: each yield is a point at which another task may be made to
// run. Nothing under /repo is touched.
package main

import (
	"bytes"
	"fmt"
	"go/ast"
	"go/format"
	"go/parser"
	"go/token"
	"os"
	"path/filepath"
	"regexp"
	"strings"
)

var stateLabel = regexp.MustCompile(`^st[0-9]+$`)

type site struct{ file, kind, name string }

var sites []site

func yieldCall(file, kind, name string) ast.Stmt {
	id := len(sites)
	sites = append(sites, site{file, kind, name})
	return &ast.ExprStmt{X: &ast.CallExpr{Fun: ast.NewIdent("verifYield"), Args: []ast.Expr{&ast.BasicLit{Kind: token.INT, Value: fmt.Sprint(id)}}}}
}

func instrumentFile(path, rel string) ([]byte, error) {
	fset := token.NewFileSet()
	f, err := parser.ParseFile(fset, path, nil, parser.ParseComments)
	if err != nil {
		return nil, err
	}
	for _, decl := range f.Decls {
		fd, ok := decl.(*ast.FuncDecl)
		if !ok || fd.Body == nil {
			continue
		}
		fname := fd.Name.Name
		ast.Inspect(fd.Body, func(n ast.Node) bool {
			switch s := n.(type) {
			case *ast.ForStmt:
				s.Body.List = append([]ast.Stmt{yieldCall(rel, "loop", fname)}, s.Body.List...)
			case *ast.RangeStmt:
				s.Body.List = append([]ast.Stmt{yieldCall(rel, "loop", fname)}, s.Body.List...)
			case *ast.LabeledStmt:
				if stateLabel.MatchString(s.Label.Name) {
					if _, isBlock := s.Stmt.(*ast.BlockStmt); !isBlock {
						s.Stmt = &ast.BlockStmt{List: []ast.Stmt{yieldCall(rel, "state", fname+":"+s.Label.Name), s.Stmt}}
					}
				}
			}
			return true
		})
		fd.Body.List = append([]ast.Stmt{yieldCall(rel, "func", fname)}, fd.Body.List...)
	}
	var buf bytes.Buffer
	if err := format.Node(&buf, fset, f); err != nil {
		return nil, err
	}
	return buf.Bytes(), nil
}

func main() {
	if len(os.Args) != 3 {
		fmt.Fprintln(os.Stderr, "usage: instrument <repo> <dst>")
		os.Exit(2)
	}
	src, dst := os.Args[1], os.Args[2]
	pkgs := []string{".", "internal/fp"}
	for _, pkg := range pkgs {
		entries, err := os.ReadDir(filepath.Join(src, pkg))
		if err != nil {
			fmt.Fprintln(os.Stderr, err)
			os.Exit(2)
		}
		os.MkdirAll(filepath.Join(dst, pkg), 0o755)
		for _, e := range entries {
			name := e.Name()
			if e.IsDir() || !strings.HasSuffix(name, ".go") || strings.HasSuffix(name, "_test.go") {
				continue
			}
			rel := filepath.Join(pkg, name)
			out, err := instrumentFile(filepath.Join(src, rel), rel)
			if err != nil {
				fmt.Fprintln(os.Stderr, "instrument:", err)
				os.Exit(2)
			}
			if err := os.WriteFile(filepath.Join(dst, rel), out, 0o644); err != nil {
				fmt.Fprintln(os.Stderr, err)
				os.Exit(2)
			}
		}
	}
	for _, f := range []string{"go.mod", "go.sum"} {
		b, err := os.ReadFile(filepath.Join(src, f))
		if err == nil {
			os.WriteFile(filepath.Join(dst, f), b, 0o644)
		}
	}
	// wiring
	fpYield := `package fp

var verifYieldHook func(int)

// SetVerifYield installs the yield hook of the instrumented copy.
func SetVerifYield(f func(int)) { verifYieldHook = f }

func verifYield(site int) {
	if h := verifYieldHook; h != nil {
		h(site)
	}
}
`
	var tbl strings.Builder
	tbl.WriteString("package rjson\n\nimport \"github.com/willabides/rjson/internal/fp\"\n\nvar verifYieldHook func(int)\n\n")
	tbl.WriteString("// SetVerifYield installs the yield hook of the instrumented copy (both packages).\nfunc SetVerifYield(f func(int)) {\n\tverifYieldHook = f\n\tfp.SetVerifYield(f)\n}\n\n")
	tbl.WriteString("func verifYield(site int) {\n\tif h := verifYieldHook; h != nil {\n\t\th(site)\n\t}\n}\n\n")
	tbl.WriteString("// VerifSites describes every yield site: file, kind (func/loop/state), name.\nvar VerifSites = [][3]string{\n")
	for _, s := range sites {
		fmt.Fprintf(&tbl, "\t{%q, %q, %q},\n", s.file, s.kind, s.name)
	}
	tbl.WriteString("}\n")
	os.WriteFile(filepath.Join(dst, "internal/fp", "verif_yield.go"), []byte(fpYield), 0o644)
	os.WriteFile(filepath.Join(dst, "verif_yield.go"), []byte(tbl.String()), 0o644)
	fmt.Printf("instrumented %d yield sites\n", len(sites))
}
