// Command instrument copies the non-test Go sources of the rjson repository
// into a scratch directory and inserts a call to verifYield(site) at every
// function entry, at the top of every loop body, at every Ragel state label
// (stN:, reached once per consumed byte) and in front of every other statement. The copy is what C18's cooperative
// scheduler runs: each yield is a point at which another task may be made to
// run. Nothing under /repo is touched.
package main

import (
	"bytes"
	"fmt"
	"go/ast"
	"go/format"
	"go/parser"
	"go/token"
	"os"
	"path/filepath"
	"regexp"
	"strings"
)

var stateLabel = regexp.MustCompile(`^st[0-9]+$`)

type site struct{ file, kind, name, shared string }

var sites []site

// curShared is "shared" while a function that mentions a mutable package-level variable is being
// instrumented: its yield sites are the ones a schedule aims at when it looks for broken atomicity.
var curShared string

func yieldCall(file, kind, name string) ast.Stmt {
	id := len(sites)
	sites = append(sites, site{file, kind, name, curShared})
	return &ast.ExprStmt{X: &ast.CallExpr{Fun: ast.NewIdent("verifYield"), Args: []ast.Expr{&ast.BasicLit{Kind: token.INT, Value: fmt.Sprint(id)}}}}
}

// instrumentStatements inserts a yield in front of every statement of every block, case clause and
// select clause of fd (kind "stmt"), so that another task can be made to run between any two
// statements of the library - between a check and the use that relies on it, between two loads,
// between a callback's return and the state update that follows. Not instrumented: goto / break /
// continue / fallthrough (no effect on memory), the first statement of function and loop bodies
// (they get their own yield), statements behind a Ragel state label (ditto), and labelled
// declarations (wrapping them in a block would change their scope).
func instrumentStatements(fd *ast.FuncDecl, rel string) {
	fname := fd.Name.Name
	skipFirst := map[*ast.BlockStmt]bool{fd.Body: true}
	clauseBody := map[*ast.BlockStmt]bool{} // bodies of switch / select: their "statements" are the clauses
	var lists []*[]ast.Stmt
	var owners []*ast.BlockStmt
	ast.Inspect(fd.Body, func(n ast.Node) bool {
		switch s := n.(type) {
		case *ast.ForStmt:
			skipFirst[s.Body] = true
		case *ast.RangeStmt:
			skipFirst[s.Body] = true
		case *ast.SwitchStmt:
			clauseBody[s.Body] = true
		case *ast.TypeSwitchStmt:
			clauseBody[s.Body] = true
		case *ast.SelectStmt:
			clauseBody[s.Body] = true
		case *ast.BlockStmt:
			if !clauseBody[s] {
				lists = append(lists, &s.List)
				owners = append(owners, s)
			}
		case *ast.CaseClause:
			lists = append(lists, &s.Body)
			owners = append(owners, nil)
		case *ast.CommClause:
			lists = append(lists, &s.Body)
			owners = append(owners, nil)
		}
		return true
	})
	for li, lp := range lists {
		var out []ast.Stmt
		for i, st := range *lp {
			switch t := st.(type) {
			case *ast.BranchStmt, *ast.EmptyStmt:
				out = append(out, st)
				continue
			case *ast.LabeledStmt:
				if !stateLabel.MatchString(t.Label.Name) {
					switch inner := t.Stmt.(type) {
					case *ast.BlockStmt, *ast.DeclStmt, *ast.BranchStmt, *ast.EmptyStmt, *ast.LabeledStmt:
					case *ast.AssignStmt:
						if inner.Tok != token.DEFINE {
							t.Stmt = &ast.BlockStmt{List: []ast.Stmt{yieldCall(rel, "stmt", fname+":"+t.Label.Name), t.Stmt}}
						}
					default:
						t.Stmt = &ast.BlockStmt{List: []ast.Stmt{yieldCall(rel, "stmt", fname+":"+t.Label.Name), t.Stmt}}
					}
				}
				out = append(out, st)
				continue
			}
			if i == 0 && owners[li] != nil && skipFirst[owners[li]] {
				out = append(out, st)
				continue
			}
			out = append(out, yieldCall(rel, "stmt", fname), st)
		}
		*lp = out
	}
}

// mutableGlobals finds, without type information, the package-level variables of one package that
// some function may modify: a variable that appears on the left of an assignment or ++/--, under a
// unary & (atomic operations, pointers handed around), as the receiver of a method call (pools,
// mutexes, atomic.Value), as the base of an indexed / field assignment, sliced, or handed whole to a
// function (a slice, map or pointer the callee may write through). Read-only tables are not
// flagged. Local variables that shadow a global give false positives, which only add sites to aim at.
// The verif seam's own files are left out: they are the simulator's, not the library's.
func mutableGlobals(dir string, names []string) map[string]bool {
	fset := token.NewFileSet()
	globals := map[string]bool{}
	var files []*ast.File
	for _, name := range names {
		if strings.Contains(name, "verif") {
			continue
		}
		f, err := parser.ParseFile(fset, filepath.Join(dir, name), nil, 0)
		if err != nil {
			continue
		}
		files = append(files, f)
		for _, d := range f.Decls {
			if gd, ok := d.(*ast.GenDecl); ok && gd.Tok == token.VAR {
				for _, sp := range gd.Specs {
					for _, id := range sp.(*ast.ValueSpec).Names {
						if id.Name != "_" {
							globals[id.Name] = true
						}
					}
				}
			}
		}
	}
	base := func(e ast.Expr) string {
		for {
			switch t := e.(type) {
			case *ast.Ident:
				return t.Name
			case *ast.IndexExpr:
				e = t.X
			case *ast.SelectorExpr:
				e = t.X
			case *ast.StarExpr:
				e = t.X
			case *ast.ParenExpr:
				e = t.X
			case *ast.SliceExpr:
				e = t.X
			default:
				return ""
			}
		}
	}
	mut := map[string]bool{}
	for _, f := range files {
		for _, d := range f.Decls {
			fd, ok := d.(*ast.FuncDecl)
			if !ok || fd.Body == nil {
				continue
			}
			ast.Inspect(fd.Body, func(n ast.Node) bool {
				switch t := n.(type) {
				case *ast.AssignStmt:
					if t.Tok != token.DEFINE {
						for _, l := range t.Lhs {
							if b := base(l); globals[b] {
								mut[b] = true
							}
						}
					}
				case *ast.IncDecStmt:
					if b := base(t.X); globals[b] {
						mut[b] = true
					}
				case *ast.UnaryExpr:
					if t.Op == token.AND {
						if b := base(t.X); globals[b] {
							mut[b] = true
						}
					}
				case *ast.CallExpr:
					if sel, ok := t.Fun.(*ast.SelectorExpr); ok {
						if b := base(sel.X); globals[b] {
							mut[b] = true
						}
					}
					// handed to a function as a whole (a slice, map or pointer the callee may write through)
					if fn, ok := t.Fun.(*ast.Ident); ok && (fn.Name == "len" || fn.Name == "cap") {
						break
					}
					for _, arg := range t.Args {
						if id, ok := arg.(*ast.Ident); ok && globals[id.Name] {
							mut[id.Name] = true
						}
					}
				case *ast.SliceExpr:
					if b := base(t.X); globals[b] {
						mut[b] = true
					}
				}
				return true
			})
		}
	}
	return mut
}

func mentions(fd *ast.FuncDecl, names map[string]bool) bool {
	found := false
	ast.Inspect(fd.Body, func(n ast.Node) bool {
		if id, ok := n.(*ast.Ident); ok && names[id.Name] {
			found = true
		}
		return !found
	})
	return found
}

func instrumentFile(path, rel string, mut map[string]bool) ([]byte, error) {
	fset := token.NewFileSet()
	f, err := parser.ParseFile(fset, path, nil, parser.ParseComments)
	if err != nil {
		return nil, err
	}
	// comments inside function bodies are dropped: statements inserted without positions next to
	// them would otherwise be printed into the comment's line. Comments in front of the package
	// clause (build constraints) and doc comments of declarations stay.
	var keep []*ast.CommentGroup
	for _, cg := range f.Comments {
		inBody := false
		for _, decl := range f.Decls {
			if fd, ok := decl.(*ast.FuncDecl); ok && fd.Body != nil && cg.Pos() > fd.Body.Lbrace && cg.End() < fd.Body.Rbrace {
				inBody = true
			}
		}
		if !inBody {
			keep = append(keep, cg)
		}
	}
	f.Comments = keep
	for _, decl := range f.Decls {
		fd, ok := decl.(*ast.FuncDecl)
		if !ok || fd.Body == nil {
			continue
		}
		fname := fd.Name.Name
		curShared = ""
		if !strings.Contains(rel, "verif") && mentions(fd, mut) {
			curShared = "shared"
		}
		instrumentStatements(fd, rel)
		ast.Inspect(fd.Body, func(n ast.Node) bool {
			switch s := n.(type) {
			case *ast.ForStmt:
				s.Body.List = append([]ast.Stmt{yieldCall(rel, "loop", fname)}, s.Body.List...)
			case *ast.RangeStmt:
				s.Body.List = append([]ast.Stmt{yieldCall(rel, "loop", fname)}, s.Body.List...)
			case *ast.LabeledStmt:
				if stateLabel.MatchString(s.Label.Name) {
					if _, isBlock := s.Stmt.(*ast.BlockStmt); !isBlock {
						s.Stmt = &ast.BlockStmt{List: []ast.Stmt{yieldCall(rel, "state", fname+":"+s.Label.Name), s.Stmt}}
					}
				}
			}
			return true
		})
		fd.Body.List = append([]ast.Stmt{yieldCall(rel, "func", fname)}, fd.Body.List...)
	}
	var buf bytes.Buffer
	if err := format.Node(&buf, fset, f); err != nil {
		return nil, err
	}
	return buf.Bytes(), nil
}

func main() {
	if len(os.Args) != 3 {
		fmt.Fprintln(os.Stderr, "usage: instrument <repo> <dst>")
		os.Exit(2)
	}
	src, dst := os.Args[1], os.Args[2]
	pkgs := []string{".", "internal/fp"}
	for _, pkg := range pkgs {
		entries, err := os.ReadDir(filepath.Join(src, pkg))
		if err != nil {
			fmt.Fprintln(os.Stderr, err)
			os.Exit(2)
		}
		os.MkdirAll(filepath.Join(dst, pkg), 0o755)
		var goFiles []string
		for _, e := range entries {
			name := e.Name()
			if e.IsDir() || !strings.HasSuffix(name, ".go") || strings.HasSuffix(name, "_test.go") {
				continue
			}
			goFiles = append(goFiles, name)
		}
		mut := mutableGlobals(filepath.Join(src, pkg), goFiles)
		for m := range mut {
			fmt.Printf("package-level variable that functions may modify: %s.%s\n", pkg, m)
		}
		for _, name := range goFiles {
			rel := filepath.Join(pkg, name)
			out, err := instrumentFile(filepath.Join(src, rel), rel, mut)
			if err != nil {
				fmt.Fprintln(os.Stderr, "instrument:", rel, err)
				os.Exit(2)
			}
			if err := os.WriteFile(filepath.Join(dst, rel), out, 0o644); err != nil {
				fmt.Fprintln(os.Stderr, err)
				os.Exit(2)
			}
		}
	}
	for _, f := range []string{"go.mod", "go.sum"} {
		b, err := os.ReadFile(filepath.Join(src, f))
		if err == nil {
			os.WriteFile(filepath.Join(dst, f), b, 0o644)
		}
	}
	// wiring
	fpYield := `package fp

var verifYieldHook func(int)

// SetVerifYield installs the yield hook of the instrumented copy.
func SetVerifYield(f func(int)) { verifYieldHook = f }

func verifYield(site int) {
	if h := verifYieldHook; h != nil {
		h(site)
	}
}
`
	var tbl strings.Builder
	tbl.WriteString("package rjson\n\nimport \"github.com/willabides/rjson/internal/fp\"\n\nvar verifYieldHook func(int)\n\n")
	tbl.WriteString("// SetVerifYield installs the yield hook of the instrumented copy (both packages).\nfunc SetVerifYield(f func(int)) {\n\tverifYieldHook = f\n\tfp.SetVerifYield(f)\n}\n\n")
	tbl.WriteString("func verifYield(site int) {\n\tif h := verifYieldHook; h != nil {\n\t\th(site)\n\t}\n}\n\n")
	tbl.WriteString("// VerifSites describes every yield site: file, kind (func/loop/state/stmt), name, and the word shared when the\n// enclosing function mentions a package-level variable that some function may modify.\nvar VerifSites = [][4]string{\n")
	for _, s := range sites {
		fmt.Fprintf(&tbl, "\t{%q, %q, %q, %q},\n", s.file, s.kind, s.name, s.shared)
	}
	tbl.WriteString("}\n")
	os.WriteFile(filepath.Join(dst, "internal/fp", "verif_yield.go"), []byte(fpYield), 0o644)
	os.WriteFile(filepath.Join(dst, "verif_yield.go"), []byte(tbl.String()), 0o644)
	fmt.Printf("instrumented %d yield sites\n", len(sites))
}
