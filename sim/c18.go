package main

import (
	"bytes"
	"fmt"
	"os"
	"sync"

	"github.com/willabides/rjson"
)

// C18 — independent calls are safe to run concurrently.
//
// Stage A (c18_yield.go, build tag verifyield, instrumented copy of the
// repository): deterministic interleaving under a seeded cooperative scheduler.
// Stage B (this file, id C18B, built with -race): the same scenarios, tasks
// released simultaneously on real Ps, race detector on, pool seam off.

var c18Ops = apiNames(nil)

func genC18(r *Rand, sc *Scenario, tier string) {
	if sc.Property == "C18" && (sc.Index/1024)%8 == 7 {
		genC18Sweep(sc)
		return
	}
	ntasks := r.Range(2, 6)
	ndocs := r.Range(1, 4)
	for i := 0; i < ndocs; i++ {
		sc.Docs = append(sc.Docs, genC18Doc(r))
	}
	if r.Chance(1, 3) {
		sc.Cfg["docs-in-one-arena"] = 1
	}
	if r.Chance(1, 60) {
		// every task recurses deep through the public traversal functions at the same time
		sc.Docs = nil
		ntasks = r.Range(4, 6)
		for t := 0; t < ntasks; t++ {
			sc.Docs = append(sc.Docs, deepDoc(r.Intn(3), []int{2600, 3000, 3400}[r.Intn(3)], "1"))
			sc.Tasks = append(sc.Tasks, []Op{{Kind: "NestedDescent", Doc: t}})
		}
		if r.Chance(1, 2) {
			n := r.Range(100, 400)
			for i := 0; i < n; i++ {
				sc.Sched = append(sc.Sched, 1+(r.Intn(64)<<8|r.Range(20, 255)))
			}
		} else {
			// every task but the last is stopped at 35-50 % of its own run - near its deepest point - and
			// stays parked there; then the last one descends while all the others are deep
			for t := 0; t < ntasks-1; t++ {
				sc.Sched = append(sc.Sched, t, r.Range(35, 50), t)
			}
			sc.Cfg["single-preemption"] = 1
			sc.Cfg["x-is-percent"] = 1
		}
		sc.Cfg["deep-recursion-in-every-task"] = 1
		return
	}
	same := ""
	if r.Chance(1, 2) {
		same = c18Ops[r.Intn(len(c18Ops))]
	}
	for t := 0; t < ntasks; t++ {
		nops := r.Range(1, 5)
		var ops []Op
		for i := 0; i < nops; i++ {
			name := same
			if name == "" || r.Chance(1, 5) {
				name = c18Ops[r.Intn(len(c18Ops))]
			}
			op := Op{Kind: name, Doc: r.Intn(ndocs), Doc2: r.Intn(ndocs), A: r.Intn(2), B: r.Intn(41)}
			if name == "HandleArrayValues" || name == "HandleObjectValues" {
				op.Tape = genC14Tape(r, r.Range(0, 12))
				if r.Chance(1, 2) {
					op.Tape = genDecisionTape(r, r.Range(0, 12), true)
				}
			}
			ops = append(ops, op)
		}
		sc.Tasks = append(sc.Tasks, ops)
	}
	if r.Chance(1, 6) {
		// every task does exactly the same work (same operations, same documents, same handler
		// decisions): they reach the same rare path - an error branch, a slow path, a first use -
		// at the same moment
		for t := 1; t < ntasks; t++ {
			sc.Tasks[t] = append([]Op(nil), sc.Tasks[0]...)
		}
		sc.Cfg["identical-tasks"] = 1
	}
	if r.Chance(1, 4) {
		// preemption-bounded schedule: 1-3 preemptions in all; a task is stopped after a number of
		// yields that Exec derives from the sequential reference run (x mod the yields that task made),
		// another task runs to completion in the gap, then the rest run one after another
		for k := r.Range(1, 3); k > 0; k-- {
			a := r.Intn(ntasks)
			b := r.Intn(ntasks - 1)
			if b >= a {
				b++
			}
			sc.Sched = append(sc.Sched, a, r.Intn(1<<30), b)
		}
		sc.Cfg["single-preemption"] = 1
		if r.Chance(1, 2) {
			sc.Cfg["aim-at-shared-state"] = 1
		}
		return
	}
	// schedule: entries e >= 1: task selector in the high bits, quantum (yields to run) in the low byte
	n := r.Range(0, 300)
	style := r.Pick(3, 2, 1)
	for i := 0; i < n; i++ {
		q := 0
		switch style {
		case 0:
			q = r.Intn(8)
		case 1:
			q = r.Intn(64)
		case 2:
			q = r.Intn(256)
		}
		sc.Sched = append(sc.Sched, 1+(r.Intn(64)<<8|q))
	}
}

// taskState is the private, caller-owned state of one task.
type taskState struct {
	x       *opCtx
	shared  *rjson.Buffer
	scratch []byte
	outs    []Outcome
}

func newTaskState(st *Stats) *taskState {
	return &taskState{x: &opCtx{st: st, tg: &targets{b: true, f: 1.25, i64: -3, s: "prior"}, reader: &rjson.ValueReader{}, quiet: true}, shared: &rjson.Buffer{}}
}

// runTaskOp executes one operation of a task on the shared documents.
func (ts *taskState) runTaskOp(op Op, docs [][]byte, yield func()) Outcome {
	x := ts.x
	data := docs[op.Doc%len(docs)]
	x.tape = NewTape(op.Tape)
	x.buf = nil
	if op.A == 1 {
		x.buf = ts.shared
	}
	x.doc2 = docs[op.Doc2%len(docs)]
	x.dst = mkDst(op.B, len(data))
	x.scratch = nil
	if op.B%2 == 1 {
		ts.scratch = mkDst(op.B, 8)
		x.scratch = &ts.scratch
	}
	x.henv = nil
	out := runAPI(op.Kind, x, data)
	if out.Err != nil {
		// what the error says, read the way a caller does: right after the call returned
		out.ErrText = errText(out.Err)
	}
	return out
}

func errText(err error) (s string) {
	defer func() {
		if r := recover(); r != nil {
			s = fmt.Sprint("Error() panicked: ", r)
		}
	}()
	return err.Error()
}

// genManyKeysDoc: objects with many distinct short field names drawn from a universe of a few
// thousand, as one flat object or as an array of records that repeat their field names - the
// workload of anything that interns, caches or hashes field names.
func genManyKeysDoc(r *Rand) Doc {
	universe := []int{64, 512, 4096}[r.Intn(3)]
	var b bytes.Buffer
	key := func() { fmt.Fprintf(&b, `"%s%d":`, []string{"f", "k", "id", ""}[r.Intn(4)], r.Intn(universe)) }
	if r.Chance(1, 2) {
		n := []int{10, 60, 300, 1200}[r.Pick(2, 3, 3, 1)]
		b.WriteByte('{')
		for i := 0; i < n; i++ {
			if i > 0 {
				b.WriteByte(',')
			}
			key()
			fmt.Fprintf(&b, "%d", i)
		}
		b.WriteByte('}')
		return docOf(b.Bytes(), "many-keys")
	}
	// records: the same names again and again
	nf, nr := r.Range(2, 12), r.Range(2, 30)
	names := make([]string, nf)
	for i := range names {
		names[i] = fmt.Sprintf("%s%d", []string{"f", "k", "id", "name"}[r.Intn(4)], r.Intn(universe))
	}
	b.WriteByte('[')
	for j := 0; j < nr; j++ {
		if j > 0 {
			b.WriteByte(',')
		}
		b.WriteByte('{')
		for i, nm := range names {
			if i > 0 {
				b.WriteByte(',')
			}
			fmt.Fprintf(&b, `"%s":%d`, nm, j*100+i)
		}
		b.WriteByte('}')
	}
	b.WriteByte(']')
	return docOf(b.Bytes(), "records")
}

// genLongStringDoc: one string token whose length sits around a power of two (256 .. 64 Ki), plain
// bytes first and the first escape late - the shape that takes the "large input" branch of
// anything with a size threshold.
func genLongStringDoc(r *Rand) Doc {
	n := 1<<uint(r.Range(8, 16)) + []int{-2, -1, 0, 1, 7, 100}[r.Intn(6)]
	fill := []string{"a", "ab", "é", "x "}[r.Intn(4)]
	tail := []string{`\n`, `\u00e9`, `\"`, ``, `\ud83d\ude00`}[r.Intn(5)]
	d := docRep("long-string", `"`, 1, fill, n/len(fill), tail+`tail"`, 1)
	if r.Chance(1, 3) {
		d = docRep("long-string", `["k",`, 1, `"`, 1, fill, n/len(fill), tail+`tail"`, 1, `]`, 1)
	}
	return d
}

// genManySmallArraysDoc: hundreds to thousands of arrays of 1-16 elements: the workload of anything
// that carves small results out of a shared block.
func genManySmallArraysDoc(r *Rand) Doc {
	n := []int{150, 400, 1100}[r.Intn(3)]
	var b bytes.Buffer
	b.WriteByte('[')
	for i := 0; i < n; i++ {
		if i > 0 {
			b.WriteByte(',')
		}
		b.WriteByte('[')
		for j, k := 0, 1+(i*7+n)%16; j < k; j++ {
			if j > 0 {
				b.WriteByte(',')
			}
			fmt.Fprintf(&b, "%d", i*100+j)
		}
		b.WriteByte(']')
	}
	b.WriteByte(']')
	return docOf(b.Bytes(), "many-small-arrays")
}

func genC18Doc(r *Rand) Doc {
	if r.Chance(1, 40) {
		return genManySmallArraysDoc(r)
	}
	switch r.Pick(3, 4, 2, 3, 2, 1, 2, 1) {
	case 0:
		return genDoc(r, "tiny")
	case 1:
		return genDoc(r, "small")
	case 2:
		return genDoc(r, "medium")
	case 3:
		return genStringTokenDoc(r)
	case 4:
		var b bytes.Buffer
		b.WriteString([]string{"", " "}[r.Intn(2)])
		genNumber(r, &b)
		return docOf(b.Bytes(), "number")
	case 5:
		return docOf(genContainerDoc(r, r.Chance(1, 2), memberCount(r), 500), "container")
	case 6:
		return genManyKeysDoc(r)
	}
	return genLongStringDoc(r)
}

// genC18Sweep: a block of 1024 consecutive scenario indices shares one small base scenario (two
// tasks, one operation each) and differs only in where the single preemption lands: index offset
// k preempts task k/512 after exactly k%512+1 yields, lets the other task run to completion, then
// resumes. Every preemption point of both operations is visited once (operations of <= 512
// yields): a bounded-exhaustive sweep inside the seeded search.
func genC18Sweep(sc *Scenario) {
	block, off := sc.Index/1024, sc.Index%1024
	r := NewRand(runSeed(sc.Batch, "C18-sweep", block))
	for t := 0; t < 2; t++ {
		var d Doc
		switch r.Pick(3, 3, 2, 2, 2) {
		case 0:
			d = genDoc(r, "tiny")
		case 1:
			d = docOf(genTreeBytes(r, r.Range(10, 80)), "small")
		case 2:
			d = genStringTokenDoc(r)
			if d.Len() > 120 {
				d = genDoc(r, "tiny")
			}
		case 3:
			var b bytes.Buffer
			genNumber(r, &b)
			d = docOf(b.Bytes(), "number")
			if d.Len() > 60 {
				d = docOf([]byte("1.5e300"), "number")
			}
		case 4:
			var b bytes.Buffer
			fmt.Fprintf(&b, `{"f%d":1,"k%d":{"f%d":2},"f%d":3}`, r.Intn(4096), r.Intn(4096), r.Intn(4096), r.Intn(4096))
			d = docOf(b.Bytes(), "many-keys")
		}
		if r.Chance(1, 5) {
			// wide workloads: whatever a task does in the other's gap, it does a lot of it
			d = genManyKeysDoc(r)
		}
		sc.Docs = append(sc.Docs, d)
	}
	same := c18Ops[r.Intn(len(c18Ops))]
	for t := 0; t < 2; t++ {
		name := same
		if r.Chance(1, 3) {
			name = c18Ops[r.Intn(len(c18Ops))]
		}
		op := Op{Kind: name, Doc: t, Doc2: 1 - t, A: r.Intn(2), B: r.Intn(41)}
		if r.Chance(1, 3) {
			op.Doc = 0 // both tasks on the same shared document
		}
		if name == "HandleArrayValues" || name == "HandleObjectValues" {
			op.Tape = genC14Tape(r, r.Range(0, 8))
		}
		sc.Tasks = append(sc.Tasks, []Op{op})
	}
	a := off / 512
	sc.Sched = []int{a, off % 512, 1 - a}
	sc.Cfg["single-preemption"] = 1
	sc.Cfg["sweep-block"] = block
	if (block/8)%2 == 1 {
		sc.Cfg["aim-at-shared-state"] = 1
	}
}

func buildDocs(sc *Scenario) [][]byte {
	docs := make([][]byte, len(sc.Docs))
	if sc.cfg("docs-in-one-arena") == 1 {
		// one read buffer holds all messages back to back, every task parses its own window of it:
		// the spare capacity behind a window is the next tasks' input, plus some slack at the end
		total := 64
		for _, d := range sc.Docs {
			total += d.Len()
		}
		arena := make([]byte, 0, total)
		offs := make([]int, len(sc.Docs)+1)
		for i, d := range sc.Docs {
			offs[i] = len(arena)
			arena = append(arena, d.Bytes()...)
		}
		offs[len(sc.Docs)] = len(arena)
		full := arena[:total]
		for i := len(arena); i < total; i++ {
			full[i] = poisonByte
		}
		for i := range sc.Docs {
			docs[i] = arena[offs[i]:offs[i+1]] // capacity runs on to the end of the arena
		}
		return docs
	}
	for i, d := range sc.Docs {
		docs[i] = d.Bytes()
	}
	return docs
}

// docsEqual compares the documents including everything within their capacity.
func docsEqual(a, b [][]byte) int {
	for i := range a {
		if !bytes.Equal(a[i][:cap(a[i])], b[i][:cap(b[i])]) {
			return i
		}
	}
	return -1
}

// runSequential is the reference: every task's operations, one task after another.
func runSequential(sc *Scenario, st *Stats) [][]Outcome {
	docs := buildDocs(sc)
	out := make([][]Outcome, len(sc.Tasks))
	for ti, ops := range sc.Tasks {
		ts := newTaskState(st)
		for _, op := range ops {
			out[ti] = append(out[ti], ts.runTaskOp(op, docs, nil))
		}
	}
	return out
}

func compareRuns(sc *Scenario, seq, con [][]Outcome, what string) *Violation {
	for ti := range sc.Tasks {
		for oi := range sc.Tasks[ti] {
			if oi >= len(con[ti]) || oi >= len(seq[ti]) {
				return &Violation{Class: "missing-result", Task: ti, Op: oi, Sig: "C18/missing-result", Detail: "an operation did not complete"}
			}
			if diff := diffOutcome(con[ti][oi], seq[ti][oi]); diff != "" {
				op := sc.Tasks[ti][oi]
				return &Violation{Class: "interleaving-changes-result", Task: ti, Op: oi, Sig: "C18/interleaving-changes-result/" + op.Kind,
					Detail: fmt.Sprintf("task %d op %d (%s on %q): %s vs run one after another: %s", ti, oi, op.Kind, clip(string(sc.Docs[op.Doc%len(sc.Docs)].Bytes()), 60), what, diff)}
			}
		}
	}
	return nil
}

// ---------------------------------------------------------------- stage B

type c18b struct{}

func init() { register(c18b{}) }

func (c18b) ID() string    { return "C18B" }
func (c18b) Level() string { return "exploration" }
func (c18b) Procs() int    { return 16 }
func (c18b) Budget(tier string) (int, int) {
	if tier == "thorough" {
		return 400000, 420
	}
	return 3200, 120
}
func (c18b) Rule() string {
	return "stage B (NOT schedule-deterministic, labelled so): the same scenarios as stage A, uninstrumented, built with -race; the 2-6 tasks of a scenario are real goroutines released together on 16 Ps and repeat their operation lists 12 times on shared read-only documents with private Buffer/ValueReader/destinations; real sync.Pool (seam off). A race-detector report (GORACE=halt_on_error=1) or a result that differs from the sequential execution is a violation."
}
func (c18b) Assumptions() []string {
	return []string{"the Go race detector: reports are triggered by a missing happens-before relation between two accesses that both happened in the run, not by their timing"}
}
func (c18b) Required(tier string) []string { return []string{"tasks-run-concurrently"} }
func (c18b) Gen(r *Rand, sc *Scenario, tier string) {
	sc.Property = "C18B"
	genC18(r, sc, tier)
	sc.Sched = nil
	delete(sc.Cfg, "single-preemption")
	if len(sc.Docs) > 0 && r.Chance(1, 12) {
		// stage B only (they are too slow for the yield-instrumented copy): documents of hundreds of
		// kilobytes with a wide root, or a top-level array of thousands of elements - the sizes at which
		// a library starts handing work to goroutines of its own
		if r.Chance(1, 2) {
			sc.Docs[0] = genDoc(r, "large")
		} else {
			n := []int{1024, 1500, 5000}[r.Intn(3)]
			sc.Docs[0] = docRep("wide-top-level-array", "[", 1, []string{`"a\u00e9",`, "\"x\xff\",", `[1,2],`, `1.5,`}[r.Intn(4)], n, `"end"]`, 1)
			for ti := range sc.Tasks {
				if len(sc.Tasks[ti]) > 2 {
					sc.Tasks[ti] = sc.Tasks[ti][:2]
				}
			}
		}
	}
	if sc.Index%2 == 0 {
		// every task runs the same entry point, cycling through the whole API by scenario index:
		// the first scenario of each fresh worker process meets cold package state concurrently
		name := c18Ops[(sc.Index/2)%len(c18Ops)]
		big := r.Chance(1, 8) && len(sc.Docs) > 0
		if big {
			// ... and all of them on one big shared document (hundreds of kilobytes / thousands of
			// top-level elements): what a library would split up among goroutines of its own
			wide := func() Doc {
				n := []int{1100, 3000, 9000}[r.Intn(3)]
				unit := []string{`"a\u00e9 some text that has to be copied",`, "\"x\xff and \xfe need replacing, which takes a little longer\",", `[1,2,["\n"]],`, `1.5,`}[r.Intn(4)]
				return docRep("wide-top-level-array", "[", 1, unit, n, `"end"]`, 1)
			}
			if r.Chance(1, 3) {
				sc.Docs[0] = genDoc(r, "large")
			} else {
				sc.Docs[0] = wide()
			}
			if len(sc.Docs) > 1 {
				sc.Docs[1] = wide() // the other half of the tasks works on a document of another size
			}
		}
		for ti := range sc.Tasks {
			if big {
				sc.Tasks[ti] = sc.Tasks[ti][:1] // one operation per task: they are slow under the race detector
			}
			for oi := range sc.Tasks[ti] {
				sc.Tasks[ti][oi].Kind = name
				if big {
					sc.Tasks[ti][oi].Doc = ti % 2 % len(sc.Docs)
				}
			}
		}
		sc.Cfg["same-entry-point"] = 1
	}
}

func (c18b) Exec(sc *Scenario, st *Stats) *Violation {
	if os.Getenv("VERIF_TRACE_IDX") != "" {
		fmt.Fprintf(os.Stderr, "@idx %d\n", sc.Index)
	}
	uninstallPool()
	// concurrent phase first: state that is initialised lazily on first use must be
	// met by several tasks at once, not warmed by the sequential reference
	docs := buildDocs(sc)
	snap := buildDocs(sc)
	reps := 12
	if sc.totalDocBytes() > 100000 {
		reps = 4 // big documents are slow under the race detector
	}
	con := make([][]Outcome, len(sc.Tasks))
	start := make(chan struct{})
	var wg sync.WaitGroup
	var harness harnessError
	var hmu sync.Mutex
	for ti := range sc.Tasks {
		wg.Add(1)
		go func(ti int) {
			defer wg.Done()
			defer func() {
				if r := recover(); r != nil {
					hmu.Lock()
					harness = harnessError(fmt.Sprint(r))
					hmu.Unlock()
				}
			}()
			<-start
			for rep := 0; rep < reps; rep++ {
				ts := newTaskState(nil)
				ts.x.st = nil
				var outs []Outcome
				for _, op := range sc.Tasks[ti] {
					outs = append(outs, ts.runTaskOp(op, docs, nil))
				}
				con[ti] = outs
			}
		}(ti)
	}
	close(start)
	wg.Wait()
	if harness != "" {
		panic(harness)
	}
	seq := runSequential(sc, st)
	st.probe("tasks-run-concurrently")
	st.NonTrivial = true
	for _, ops := range sc.Tasks {
		for _, op := range ops {
			st.ev(op.Kind)
		}
	}
	if i := docsEqual(docs, snap); i >= 0 {
		return &Violation{Class: "shared-input-modified", Task: -1, Op: -1, Sig: "C18/shared-input-modified", Detail: fmt.Sprintf("shared document %d (or the bytes within its capacity) was modified", i)}
	}
	return compareRuns(sc, seq, con, "run concurrently (free-running)")
}
