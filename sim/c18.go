package main

import (
	"bytes"
	"fmt"
	"os"
	"sync"

	"github.com/willabides/rjson"
)

// C18 — independent calls are safe to run concurrently.
//
// Stage A (c18_yield.go, build tag verifyield, instrumented copy of the
// repository): deterministic interleaving under a seeded cooperative scheduler.
// Stage B (this file, id C18B, built with -race): the same scenarios, tasks
// released simultaneously on real Ps, race detector on, pool seam off.

var c18Ops = apiNames(nil)

func genC18(r *Rand, sc *Scenario, tier string) {
	ntasks := r.Range(2, 6)
	ndocs := r.Range(1, 4)
	for i := 0; i < ndocs; i++ {
		switch r.Pick(3, 4, 2, 3, 2, 1) {
		case 0:
			sc.Docs = append(sc.Docs, genDoc(r, "tiny"))
		case 1:
			sc.Docs = append(sc.Docs, genDoc(r, "small"))
		case 2:
			sc.Docs = append(sc.Docs, genDoc(r, "medium"))
		case 3:
			sc.Docs = append(sc.Docs, genStringTokenDoc(r))
		case 4:
			var b bytes.Buffer
			b.WriteString([]string{"", " "}[r.Intn(2)])
			genNumber(r, &b)
			sc.Docs = append(sc.Docs, docOf(b.Bytes(), "number"))
		case 5:
			sc.Docs = append(sc.Docs, docOf(genContainerDoc(r, r.Chance(1, 2), memberCount(r), 500), "container"))
		}
	}
	if r.Chance(1, 60) {
		// every task recurses deep through the public traversal functions at the same time
		sc.Docs = nil
		ntasks = r.Range(4, 6)
		for t := 0; t < ntasks; t++ {
			sc.Docs = append(sc.Docs, deepDoc(r.Intn(3), []int{2600, 3000, 3400}[r.Intn(3)], "1"))
			sc.Tasks = append(sc.Tasks, []Op{{Kind: "NestedDescent", Doc: t}})
		}
		n := r.Range(100, 400)
		for i := 0; i < n; i++ {
			sc.Sched = append(sc.Sched, 1+(r.Intn(64)<<8|r.Range(20, 255)))
		}
		sc.Cfg["deep-recursion-in-every-task"] = 1
		return
	}
	same := ""
	if r.Chance(1, 2) {
		same = c18Ops[r.Intn(len(c18Ops))]
	}
	for t := 0; t < ntasks; t++ {
		nops := r.Range(1, 5)
		var ops []Op
		for i := 0; i < nops; i++ {
			name := same
			if name == "" || r.Chance(1, 5) {
				name = c18Ops[r.Intn(len(c18Ops))]
			}
			op := Op{Kind: name, Doc: r.Intn(ndocs), Doc2: r.Intn(ndocs), A: r.Intn(2), B: r.Intn(41)}
			if name == "HandleArrayValues" || name == "HandleObjectValues" {
				op.Tape = genC14Tape(r, r.Range(0, 12))
				if r.Chance(1, 2) {
					op.Tape = genDecisionTape(r, r.Range(0, 12), true)
				}
			}
			ops = append(ops, op)
		}
		sc.Tasks = append(sc.Tasks, ops)
	}
	// schedule: entries e >= 1: task selector in the high bits, quantum (yields to run) in the low byte
	n := r.Range(0, 300)
	style := r.Pick(3, 2, 1)
	for i := 0; i < n; i++ {
		q := 0
		switch style {
		case 0:
			q = r.Intn(8)
		case 1:
			q = r.Intn(64)
		case 2:
			q = r.Intn(256)
		}
		sc.Sched = append(sc.Sched, 1+(r.Intn(64)<<8|q))
	}
}

// taskState is the private, caller-owned state of one task.
type taskState struct {
	x       *opCtx
	shared  *rjson.Buffer
	scratch []byte
	outs    []Outcome
}

func newTaskState(st *Stats) *taskState {
	return &taskState{x: &opCtx{st: st, tg: &targets{b: true, f: 1.25, i64: -3, s: "prior"}, reader: &rjson.ValueReader{}, quiet: true}, shared: &rjson.Buffer{}}
}

// runTaskOp executes one operation of a task on the shared documents.
func (ts *taskState) runTaskOp(op Op, docs [][]byte, yield func()) Outcome {
	x := ts.x
	data := docs[op.Doc%len(docs)]
	x.tape = NewTape(op.Tape)
	x.buf = nil
	if op.A == 1 {
		x.buf = ts.shared
	}
	x.doc2 = docs[op.Doc2%len(docs)]
	x.dst = mkDst(op.B, len(data))
	x.scratch = nil
	if op.B%2 == 1 {
		ts.scratch = mkDst(op.B, 8)
		x.scratch = &ts.scratch
	}
	x.henv = nil
	return runAPI(op.Kind, x, data)
}

func buildDocs(sc *Scenario) [][]byte {
	docs := make([][]byte, len(sc.Docs))
	for i, d := range sc.Docs {
		docs[i] = d.Bytes()
	}
	return docs
}

// runSequential is the reference: every task's operations, one task after another.
func runSequential(sc *Scenario, st *Stats) [][]Outcome {
	docs := buildDocs(sc)
	out := make([][]Outcome, len(sc.Tasks))
	for ti, ops := range sc.Tasks {
		ts := newTaskState(st)
		for _, op := range ops {
			out[ti] = append(out[ti], ts.runTaskOp(op, docs, nil))
		}
	}
	return out
}

func compareRuns(sc *Scenario, seq, con [][]Outcome, what string) *Violation {
	for ti := range sc.Tasks {
		for oi := range sc.Tasks[ti] {
			if oi >= len(con[ti]) || oi >= len(seq[ti]) {
				return &Violation{Class: "missing-result", Task: ti, Op: oi, Sig: "C18/missing-result", Detail: "an operation did not complete"}
			}
			if diff := diffOutcome(con[ti][oi], seq[ti][oi]); diff != "" {
				op := sc.Tasks[ti][oi]
				return &Violation{Class: "interleaving-changes-result", Task: ti, Op: oi, Sig: "C18/interleaving-changes-result/" + op.Kind,
					Detail: fmt.Sprintf("task %d op %d (%s on %q): %s vs run one after another: %s", ti, oi, op.Kind, clip(string(sc.Docs[op.Doc%len(sc.Docs)].Bytes()), 60), what, diff)}
			}
		}
	}
	return nil
}

// ---------------------------------------------------------------- stage B

type c18b struct{}

func init() { register(c18b{}) }

func (c18b) ID() string    { return "C18B" }
func (c18b) Level() string { return "exploration" }
func (c18b) Procs() int    { return 16 }
func (c18b) Budget(tier string) (int, int) {
	if tier == "thorough" {
		return 400000, 420
	}
	return 3200, 120
}
func (c18b) Rule() string {
	return "stage B (NOT schedule-deterministic, labelled so): the same scenarios as stage A, uninstrumented, built with -race; the 2-6 tasks of a scenario are real goroutines released together on 16 Ps and repeat their operation lists 12 times on shared read-only documents with private Buffer/ValueReader/destinations; real sync.Pool (seam off). A race-detector report (GORACE=halt_on_error=1) or a result that differs from the sequential execution is a violation."
}
func (c18b) Assumptions() []string {
	return []string{"the Go race detector: reports are triggered by a missing happens-before relation between two accesses that both happened in the run, not by their timing"}
}
func (c18b) Required(tier string) []string { return []string{"tasks-run-concurrently"} }
func (c18b) Gen(r *Rand, sc *Scenario, tier string) {
	genC18(r, sc, tier)
	sc.Sched = nil
	sc.Property = "C18B"
	if sc.Index%2 == 0 {
		// every task runs the same entry point, cycling through the whole API by scenario index:
		// the first scenario of each fresh worker process meets cold package state concurrently
		name := c18Ops[(sc.Index/2)%len(c18Ops)]
		for ti := range sc.Tasks {
			for oi := range sc.Tasks[ti] {
				sc.Tasks[ti][oi].Kind = name
			}
		}
		sc.Cfg["same-entry-point"] = 1
	}
}

func (c18b) Exec(sc *Scenario, st *Stats) *Violation {
	if os.Getenv("VERIF_TRACE_IDX") != "" {
		fmt.Fprintf(os.Stderr, "@idx %d\n", sc.Index)
	}
	uninstallPool()
	// concurrent phase first: state that is initialised lazily on first use must be
	// met by several tasks at once, not warmed by the sequential reference
	docs := buildDocs(sc)
	snap := buildDocs(sc)
	const reps = 12
	con := make([][]Outcome, len(sc.Tasks))
	start := make(chan struct{})
	var wg sync.WaitGroup
	var harness harnessError
	var hmu sync.Mutex
	for ti := range sc.Tasks {
		wg.Add(1)
		go func(ti int) {
			defer wg.Done()
			defer func() {
				if r := recover(); r != nil {
					hmu.Lock()
					harness = harnessError(fmt.Sprint(r))
					hmu.Unlock()
				}
			}()
			<-start
			for rep := 0; rep < reps; rep++ {
				ts := newTaskState(nil)
				ts.x.st = nil
				var outs []Outcome
				for _, op := range sc.Tasks[ti] {
					outs = append(outs, ts.runTaskOp(op, docs, nil))
				}
				con[ti] = outs
			}
		}(ti)
	}
	close(start)
	wg.Wait()
	if harness != "" {
		panic(harness)
	}
	seq := runSequential(sc, st)
	st.probe("tasks-run-concurrently")
	st.NonTrivial = true
	for _, ops := range sc.Tasks {
		for _, op := range ops {
			st.ev(op.Kind)
		}
	}
	for i := range docs {
		if !bytes.Equal(docs[i], snap[i]) {
			return &Violation{Class: "shared-input-modified", Task: -1, Op: -1, Sig: "C18/shared-input-modified", Detail: fmt.Sprintf("shared document %d was modified", i)}
		}
	}
	return compareRuns(sc, seq, con, "run concurrently (free-running)")
}
