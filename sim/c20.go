package main

import (
	"bytes"
	"fmt"
	"os"
	"runtime"

	"github.com/willabides/rjson"
)

// C20 — memory cost is linear in input size, also on reused readers and buffers.

type c20 struct{}

func init() { register(c20{}) }

// The bound, fixed here as specification constants (not derived from the code):
// over every prefix of a history, bytes allocated <= c20K * (input bytes) + c20C * (calls).
const (
	c20K = 1024     // bytes allocated per input byte
	c20C = 64 * 1024 // bytes per call
)

func (c20) ID() string    { return "C20" }
func (c20) Level() string { return "exploration" }
func (c20) Procs() int    { return 1 }
func (c20) Budget(tier string) (int, int) {
	if tier == "thorough" {
		return 4000000, 900
	}
	return 12000, 90
}
func (c20) Rule() string {
	return fmt.Sprintf("seeded histories on one ValueReader and one Buffer (plus fresh ones): validate / skip / traverse / generically decode documents of adversarial shape - one huge container (object or array) at any depth followed by n small siblings of either kind, escaped strings and keys at every nesting level and in every child, deep nesting (to 10,000), megabyte strings, wide scalar arrays, generated trees up to 400 KB - each shape at growing sizes (x1, x10, x100: a super-linear term crosses the bound at the smallest size that shows it), and 'one large document, then up to 20,000 small ones' (succeeding, failing, typed entry points on null) on the same reader. Failing calls (truncated, overflow, 10,001+ deep) sit between the others. A document may also be decoded the handler way (operation TraverseDecodeMembers: traverse the root container, decode every member with the long-lived reader and return its offset; the input is the document once, every library call counts as a call). Pool policy: hit whenever possible, eviction only between top-level calls. Measure: runtime.MemStats.TotalAlloc around each call at GOMAXPROCS=1. Oracles: (1) at every prefix of the history, allocated <= %d B x input bytes + %d B x calls; (3) a run of small documents on the reader / Buffer that carries the history must not allocate more than 8x + 1 KiB per call of what the same run allocates on a fresh reader / Buffer; (2) for one shape at sizes x1/x10/x100, bytes allocated per input byte at one size must not exceed 2x the figure at the previous size + 32 (checked when the step allocates > 1 MiB): a super-linear term with a small coefficient shows as growth of the per-byte cost long before it crosses an absolute bound. Non-trivial: the history has >= 2 calls on the shared reader/buffer or a document >= 10 KB; distinct = distinct hashes of (operation, shape, size class, outcome) sequences.", c20K, c20C)
}
func (c20) Assumptions() []string {
	return []string{
		fmt.Sprintf("the 'fixed constants' of the statement are instantiated as K=%d B per input byte and C=%d B per call; the dearest legitimate shape measured on the repaired tree (one container level per byte) costs about 220-250 B/B", c20K, c20C),
		"allocation caused by adversarial pool schedules (a pool that always misses) is not charged: sync.Pool's contract allows it but no build produces it (DESIGN.md 6.4)",
		"TotalAlloc includes the simulator pool's own bookkeeping (a slice append and a map entry per reader level); handler offsets are precomputed outside the measured region",
	}
}
func (c20) Required(tier string) []string {
	return []string{"shape-big-then-small-siblings", "shape-escapes-every-level", "shape-deep", "shape-escaped-children", "shape-large-tree", "history-large-then-many-small", "history-failing-small-docs", "A-abort", "P-evict", "doc>=100KB", "reused-buffer", "reused-reader", "history-deep-then-tiny-on-one-buffer", "scaling-step-checked", "shape-deep-uncapped", "document-decoded-member-by-member-in-a-traversal", "shape-records", "small-documents-after-history-vs-fresh-state-compared", "one-shape-up-to-4MB", "every-string-member-read-into-a-fresh-destination"}
}

func repeatStr(s string, n int) []byte { return bytes.Repeat([]byte(s), n) }

// c20Shape builds one adversarial document of roughly the requested size.
func c20Shape(r *Rand, shape, size int) Doc {
	var b bytes.Buffer
	switch shape {
	case 0: // big object then many small siblings, inside an array, at depth d
		n := size / 14
		if n < 4 {
			n = 4
		}
		d := r.Intn(3)
		b.Write(repeatStr("[", d))
		b.WriteString("[{")
		for i := 0; i < n; i++ {
			if i > 0 {
				b.WriteByte(',')
			}
			fmt.Fprintf(&b, `"k%d":1`, i)
		}
		b.WriteString("}")
		sib := []string{",{}", ",[]", `,{"a":1}`, ",[1]", `,{"a":{}}`, ",[{}]"}[r.Intn(6)]
		b.Write(repeatStr(sib, n))
		b.WriteString("]")
		b.Write(repeatStr("]", d))
		return docOf(b.Bytes(), "shape-big-then-small-siblings")
	case 1: // big array then many small siblings, as object members
		n := size / 8
		if n < 4 {
			n = 4
		}
		b.WriteString(`{"big":[`)
		b.Write(repeatStr("1,", n))
		b.WriteString(`1]`)
		for i := 0; i < n/2; i++ {
			fmt.Fprintf(&b, `,"s%d":%s`, i, []string{"[]", "{}", "[1]", "[[]]"}[i%4])
		}
		b.WriteString("}")
		return docOf(b.Bytes(), "shape-big-then-small-siblings")
	case 2: // escapes at every nesting level, long tail
		d := size / 14
		if d > 9990 {
			d = 9990
		}
		if d < 2 {
			d = 2
		}
		tail := size - 7*d
		if tail < 0 {
			tail = 0
		}
		unit := []string{`["\n",`, `{"\t":"\n","b":`, `["é",`, `["\u00e9",`, `{"\u20ac":"\ud83d\ude00","b":`}[r.Intn(5)]
		cl := "]"
		if unit[0] == '{' {
			cl = "}"
		}
		return docRep("shape-escapes-every-level", unit, d, `"\\`+string(repeatStr("a", tail))+`"`, 1, cl, d)
	case 3: // deep nesting
		d := size / 2
		if d > 9999 {
			d = 9999
		}
		if d < 1 {
			d = 1
		}
		dd := deepDoc(r.Intn(4), d, []string{"1", `"x"`, "{}", `"\n"`}[r.Intn(4)])
		dd.Class = "shape-deep"
		return dd
	case 4: // many children, each with an escaped string / key
		unit := []string{`["\n"],`, `{"\n":1},`, `{"a":"é\n"},`, `[["\t"]],`, `"\n",`, `["\u20ac\u20ac\u20ac"],`, `{"\u00e9\u00e9":"\ud83d\ude00"},`}[r.Intn(7)]
		n := size / len(unit)
		if n < 1 {
			n = 1
		}
		return docRep("shape-escaped-children", "[", 1, unit, n, "1]", 1)
	case 5: // long string with an early escape; long all-escape string; long runs of \uXXXX escapes
		switch r.Intn(5) {
		case 0:
			return docRep("shape-long-string", `["\n`, 1, "a", size, `"]`, 1)
		case 1:
			return docRep("shape-long-string", `{"k":"`, 1, `\né`, size/8+1, `"}`, 1)
		case 2:
			return docRep("shape-long-string", `["`, 1, `\u20ac`, size/6+1, `"]`, 1)
		case 3:
			return docRep("shape-long-string", `"`, 1, `\ud83d\ude00`, size/12+1, `"`, 1)
		default:
			return docRep("shape-long-string", `{"`, 1, `\u00e9\u0041`, size/12+1, `":"`, 1, `x\uFFFF`, size/14+1, `"}`, 1)
		}
	case 6: // wide scalar array / object
		if r.Chance(1, 2) {
			return docRep("shape-wide", "[", 1, "1.5,", size/4+1, "2]", 1)
		}
		b.WriteString("{")
		for i := 0; i < size/12+1; i++ {
			if i > 0 {
				b.WriteByte(',')
			}
			fmt.Fprintf(&b, `"key%d":"v%d"`, i, i)
		}
		b.WriteString("}")
		return docOf(b.Bytes(), "shape-wide")
	case 8: // one big row followed by small rows: [[1,1,...],[],[1],...]
		n := size / 4
		if n < 4 {
			n = 4
		}
		sib := []string{",[]", ",[1]", ",0,[]"}[r.Intn(3)]
		switch r.Intn(3) {
		case 0: // big row first, many small rows after it
			b.WriteString("[[")
			b.Write(repeatStr("1,", n))
			b.WriteString("1]")
			b.Write(repeatStr(sib, r.Range(1, n/2+1)))
			b.WriteString("]")
		case 1: // big row first, exactly one small row after it
			b.WriteString("[[")
			b.Write(repeatStr("1,", n))
			b.WriteString("1],[]]")
		default: // small rows, then the big row last but one
			b.WriteString("[[]")
			b.Write(repeatStr(sib, r.Range(0, 4)))
			b.WriteString(",[")
			b.Write(repeatStr("1,", n))
			b.WriteString("1],[]]")
		}
		return docOf(b.Bytes(), "shape-big-then-small-siblings")
	case 12: // one flat array of scalars, nothing else
		unit := []string{"1.5,", "7,", `"s",`, "null,", "true,"}[r.Intn(5)]
		return docRep("shape-flat-array", "[", 1, unit, size/len(unit)+1, "0]", 1)
	case 11: // many short escaped strings, flat: what a handler reads one by one
		unit := []string{`"\ud83d\ude00",`, `"a\nb",`, `"\u00e9t\u00e9",`, `"plain",`, `"\u20ac\u20ac\u20ac\u20ac",`}[r.Intn(5)]
		n := size / len(unit)
		if n < 1 {
			n = 1
		}
		return docRep("shape-many-escaped-strings", "[", 1, unit, n, `""]`, 1)
	case 10: // many small records: what a handler decodes member by member
		unit := []string{`{"id":7},`, `{},`, `{"a":{"b":[]}},`, `[1,2],`, `{"name":"x\ny","v":[1.5]},`}[r.Intn(5)]
		n := size / len(unit)
		if n < 1 {
			n = 1
		}
		if r.Chance(1, 2) {
			return docRep("shape-records", "[", 1, unit, n, "0]", 1)
		}
		b.WriteString("{")
		for i := 0; i < n; i++ {
			fmt.Fprintf(&b, `"m%d":%s`, i, unit)
		}
		b.WriteString(`"z":0}`)
		return docOf(b.Bytes(), "shape-records")
	case 9: // nesting far beyond 10,000: only the traversal functions' embedded skippers accept it
		d := size / 2
		if d < 1 {
			d = 1
		}
		dd := deepDoc([]int{0, 2, 3}[r.Intn(3)], d, "1")
		dd.Class = "shape-deep-uncapped"
		return dd
	default: // generated tree
		cfg := randCfg(r, size)
		cfg.maxDepth = r.Range(2, 7)
		cfg.maxKids = 64
		b.WriteByte('[')
		for b.Len() < size {
			if b.Len() > 1 {
				b.WriteByte(',')
			}
			genValue(r, &b, cfg, 1)
		}
		b.WriteByte(']')
		return docOf(b.Bytes(), "shape-large-tree")
	}
}

var c20Decoders = []string{"VR.ReadValue", "VR.ReadValue", "VR.ReadObject", "VR.ReadArray", "ReadValue", "ReadObject", "ReadArray"}
var c20Walkers = []string{"Valid", "SkipValue", "SkipValueFast", "HandleArrayValues", "HandleObjectValues"}

func (c20) Gen(r *Rand, sc *Scenario, tier string) {
	var ops []Op
	add := func(d Doc, kind string, rep int) {
		sc.Docs = append(sc.Docs, d)
		ops = append(ops, Op{Kind: kind, Doc: len(sc.Docs) - 1, A: r.Intn(2), B: r.Intn(2), C: rep})
	}
	pickKind := func() string {
		if r.Chance(2, 3) {
			return c20Decoders[r.Intn(len(c20Decoders))]
		}
		return c20Walkers[r.Intn(len(c20Walkers))]
	}
	maxSize := 40000
	if tier == "thorough" || r.Chance(1, 3) {
		maxSize = 400000
	}
	if sc.Index%2000 == 33 {
		// one shape at 40 KB, 400 KB and 4 MB: a quadratic term with a small coefficient (growth in fixed
		// steps, a per-element rescan) needs millions of elements before it dominates
		shape := []int{12, 10, 12, 0, 1, 6}[(sc.Index/2000)%6]
		kind := []string{"VR.ReadValue", "ReadValue", "VR.ReadArray"}[r.Intn(3)]
		if shape == 1 {
			kind = "VR.ReadValue"
		}
		sc.Cfg["growing"] = 1
		sc.Cfg["to-4MB"] = 1
		subSeed := r.Uint64()
		for s := 40000; s <= 4000000; s *= 10 {
			add(c20Shape(NewRand(subSeed), shape, s), kind, 1)
		}
		sc.Tasks = [][]Op{ops}
		return
	}
	switch r.Pick(5, 4, 2, 2) {
	case 3: // one deep document on a Buffer, then many tiny validations / traversals with the same Buffer
		first := c20Walkers[r.Intn(len(c20Walkers))]
		mix := r.Intn(3)
		if first == "HandleObjectValues" {
			mix = 1
		} else if first == "HandleArrayValues" && mix == 1 {
			mix = 0
		}
		dd := deepDoc(mix, []int{2000, 9000, 9999}[r.Intn(3)], "1")
		dd.Class = "shape-deep"
		sc.Docs = append(sc.Docs, dd)
		ops = append(ops, Op{Kind: first, Doc: 0, A: 1, B: 0, C: 1})
		m := []int{50, 2000, 8000}[r.Intn(3)]
		tiny := [][]byte{[]byte(`[1]`), []byte(`{"a":1}`), []byte(`[[1],[2]]`), []byte(`{"a":{"b":1}}`), []byte(`[]`), []byte(`[1,`)}
		nk := r.Range(1, 3)
		for k := 0; k < nk; k++ {
			sc.Docs = append(sc.Docs, docOf(tiny[r.Intn(len(tiny))], "small-after-large"))
			ops = append(ops, Op{Kind: c20Walkers[r.Intn(len(c20Walkers))], Doc: len(sc.Docs) - 1, A: 1, B: r.Intn(2), C: m})
		}
		sc.Cfg["deep-then-tiny-on-one-buffer"] = 1
	case 0: // one shape at growing sizes
		shape := r.Intn(12)
		kind := pickKind()
		if shape == 9 {
			kind = "HandleArrayValues"
		}
		if shape == 10 {
			kind = "TraverseDecodeMembers"
		}
		if shape == 11 {
			kind = "TraverseReadStrings"
		}
		base := r.Range(300, 4000)
		sc.Cfg["growing"] = 1
		subSeed := r.Uint64() // the same sub-shape choices at every size
		for s := base; s <= maxSize; s *= 10 {
			add(c20Shape(NewRand(subSeed), shape, s), kind, 1)
			if r.Chance(1, 3) {
				ops = append(ops, Op{Kind: "evict-pool"})
			}
		}
	case 1: // one large document, then many small ones on the same reader / buffer
		shape := []int{0, 1, 6, 7, 2, 8, 8, 5, 5}[r.Intn(9)]
		kind := c20Decoders[r.Intn(len(c20Decoders))]
		if r.Chance(1, 5) {
			kind = c20Walkers[r.Intn(len(c20Walkers))]
		}
		add(c20Shape(r, shape, r.Range(maxSize/10, maxSize)), kind, 1)
		m := []int{10, 200, 2000}[r.Intn(3)]
		if tier == "thorough" && r.Chance(1, 4) {
			m = 20000
		}
		small := [][]byte{[]byte(`[[]]`), []byte(`[0,[]]`), []byte(`{"a":[]}`), []byte(`[[],[]]`), []byte(`{"a":1}`), []byte(`[1,2]`), []byte(`{"a":{"b":[]}}`), []byte(`[{}]`), []byte(`{"a":`), []byte(`[1,`), []byte(`null`), []byte(`{}`), []byte(`[]`), []byte(`[[[]]]`), []byte(`{"\n":"\t"}`), []byte(`[1e999]`), []byte(`["b"]`), []byte(`{"a":"b"}`), []byte(`[["b"]]`), []byte(`["\u00e9"]`)}
		nk := r.Range(1, 3)
		for k := 0; k < nk; k++ {
			s := small[r.Intn(len(small))]
			kk := kind
			if r.Chance(1, 3) {
				kk = c20Decoders[r.Intn(len(c20Decoders))]
			}
			add(docOf(s, "small-after-large"), kk, m)
		}
		sc.Cfg["large-then-small"] = 1
	case 2: // mixed history
		n := r.Range(2, 8)
		for i := 0; i < n; i++ {
			size := []int{200, 3000, 30000, maxSize}[r.Pick(3, 3, 2, 1)]
			if r.Chance(1, 6) {
				// a document decoded the handler way: traversal, every member through the reused reader
				if r.Chance(1, 3) {
					add(c20Shape(r, []int{11, 11, 4, 5}[r.Intn(4)], size), "TraverseReadStrings", 1)
				} else {
					add(c20Shape(r, []int{10, 10, 0, 1, 7}[r.Intn(5)], size), "TraverseDecodeMembers", 1)
				}
				continue
			}
			d := c20Shape(r, r.Intn(9), size)
			if r.Chance(1, 5) {
				// failing variants: truncated, overflow at the end, too deep
				switch r.Intn(3) {
				case 0:
					b := d.Bytes()
					d = docOf(b[:len(b)*r.Range(1, 9)/10], d.Class+"-truncated")
				case 1:
					d = genDoc(r, "toodeep")
				case 2:
					d = docRep("overflow-at-end", "[", 1, "1,", size/2+1, "1e999]", 1)
				}
			}
			add(d, pickKind(), 1)
			if r.Chance(1, 6) {
				ops = append(ops, Op{Kind: "evict-pool"})
			}
		}
	}
	sc.Tasks = [][]Op{ops}
}

var c20debug = os.Getenv("C20_DEBUG") != ""

func (c20) Exec(sc *Scenario, st *Stats) *Violation {
	pool := newSimPool(nil, nil)
	pool.install()
	defer uninstallPool()
	reader := &rjson.ValueReader{}
	if sc.cfg("to-4MB") == 1 {
		st.probe("one-shape-up-to-4MB")
	}
	buf := &rjson.Buffer{}
	rh := &replayHandler{}
	var m0, m1 runtime.MemStats
	var totalAlloc, totalIn, calls uint64
	nOnShared := 0
	prevRatio, prevLen, prevOK := -1.0, 0, false
	for oi, op := range sc.Tasks[0] {
		if op.Kind == "evict-pool" {
			pool.evictAll()
			st.fault("P-evict")
			st.ev("evict")
			continue
		}
		d := sc.Docs[op.Doc]
		data := d.Bytes()
		st.ev(op.Kind)
		st.ev(d.Class)
		st.probe(d.Class)
		if len(data) >= 100000 {
			st.probe("doc>=100KB")
		}
		if len(data) >= 10000 {
			st.NonTrivial = true
		}
		var b *rjson.Buffer
		if op.A == 1 {
			b = buf
			st.probe("reused-buffer")
		}
		isTrav := op.Kind == "HandleArrayValues" || op.Kind == "HandleObjectValues"
		if isTrav {
			rec := &recordHandler{mode: op.B}
			func() {
				defer func() { recover() }()
				if op.Kind == "HandleArrayValues" {
					rjson.HandleArrayValues(data, rec, nil)
				} else {
					rjson.HandleObjectValues(data, rec, nil)
				}
			}()
			rh.offs = rec.offs
		}
		reps := op.C
		if reps < 1 {
			reps = 1
		}
		if reps > 1 {
			st.probe("history-large-then-many-small")
			if sc.cfg("deep-then-tiny-on-one-buffer") == 1 {
				st.probe("history-deep-then-tiny-on-one-buffer")
			}
		}
		ok := false
		extraCalls := 0
		call := func() {
			var err error
			switch op.Kind {
			case "TraverseDecodeMembers":
				// the documented composition: traverse the root container, decode every member with the
				// long-lived reader (ReadObject / ReadArray / ReadValue by token type), return its offset.
				// The input is the document, once; every library call counts as a call.
				md := &memberDecoder{vr: reader}
				tt, _, terr := rjson.NextTokenType(data)
				switch {
				case terr != nil:
					err = terr
				case tt == rjson.ObjectStartType:
					_, err = rjson.HandleObjectValues(data, md, b)
				default:
					_, err = rjson.HandleArrayValues(data, md, b)
				}
				extraCalls = md.calls
				st.probe("document-decoded-member-by-member-in-a-traversal")
			case "VR.ReadValue":
				_, _, err = reader.ReadValue(data)
			case "VR.ReadObject":
				_, _, err = reader.ReadObject(data)
			case "VR.ReadArray":
				_, _, err = reader.ReadArray(data)
			case "ReadValue":
				_, _, err = rjson.ReadValue(data)
			case "ReadObject":
				_, _, err = rjson.ReadObject(data)
			case "ReadArray":
				_, _, err = rjson.ReadArray(data)
			case "TraverseReadStrings":
				// handler style: every string member is read with ReadStringBytes into a FRESH destination
				// (nil), other members are skipped; the document counts once, every library call is a call
				sr := &stringReader{}
				tt, _, terr := rjson.NextTokenType(data)
				switch {
				case terr != nil:
					err = terr
				case tt == rjson.ObjectStartType:
					_, err = rjson.HandleObjectValues(data, sr, b)
				default:
					_, err = rjson.HandleArrayValues(data, sr, b)
				}
				extraCalls = sr.calls
				st.probe("every-string-member-read-into-a-fresh-destination")
			case "Valid":
				if !rjson.Valid(data, b) {
					err = errNotValid
				}
			case "SkipValue":
				_, err = rjson.SkipValue(data, b)
			case "SkipValueFast":
				_, err = rjson.SkipValueFast(data, b)
			case "HandleArrayValues":
				rh.i = 0
				_, err = rjson.HandleArrayValues(data, rh, b)
			case "HandleObjectValues":
				rh.i = 0
				_, err = rjson.HandleObjectValues(data, rh, b)
			default:
				panic(harnessError("C20: unknown operation " + op.Kind))
			}
			ok = err == nil
		}
		if len(op.Kind) > 3 && op.Kind[:3] == "VR." {
			st.probe("reused-reader")
			nOnShared++
		}
		if op.A == 1 && !isDecoder(op.Kind) {
			nOnShared++
		}
		if nOnShared >= 2 {
			st.NonTrivial = true
		}
		// first repetition on its own, the rest as one block: a hint learned from a large
		// document may be spent once; it may not be spent every time
		blocks := []int{1}
		if reps > 1 {
			blocks = append(blocks, reps-1)
		}
		for _, n := range blocks {
			panicked := ""
			runtime.ReadMemStats(&m0)
			func() {
				defer func() {
					if r := recover(); r != nil {
						panicked = panicString(r)
					}
				}()
				for i := 0; i < n; i++ {
					call()
				}
			}()
			runtime.ReadMemStats(&m1)
			if panicked != "" {
				break // totality is C10's
			}
			delta := m1.TotalAlloc - m0.TotalAlloc
			totalAlloc += delta
			totalIn += uint64(len(data)) * uint64(n)
			calls += uint64(n) + uint64(extraCalls)
			if !ok {
				st.fault("A-abort")
				if d.Class == "small-after-large" {
					st.probe("history-failing-small-docs")
				}
			}
			bound := c20K*totalIn + c20C*calls
			if c20debug {
				fmt.Fprintf(os.Stderr, "C20 op %d %s %s len=%d reps=%d ok=%v alloc=%d (%.1f B/B, %.0f B/call) cum=%d bound=%d\n", oi, op.Kind, d.Class, len(data), n, ok, delta, float64(delta)/float64(uint64(len(data))*uint64(n)+1), float64(delta)/float64(n), totalAlloc, bound)
			}
			st.evi("ok", b2i(ok))
			if sc.cfg("growing") == 1 && n == 1 && len(data) > 0 {
				// the same shape at growing sizes: bytes allocated per input byte must not grow with size
				ratio := float64(delta) / float64(len(data))
				// (per-byte figures of documents below 2 000 bytes are dominated by fixed costs and amortised
				// growth steps: they are not compared)
				// ... and both calls must have succeeded: a document that fails early allocates next to nothing
				if prevRatio >= 1 && prevOK && ok && len(data) >= 5*prevLen && prevLen >= 2000 {
					st.probe("scaling-step-checked")
					if c20debug {
						fmt.Fprintf(os.Stderr, "C20SCALE %s %s len %d->%d ratio %.1f->%.1f\n", op.Kind, d.Class, prevLen, len(data), prevRatio, ratio)
					}
					if ratio > 2*prevRatio+32 && delta > 1<<20 {
						return &Violation{Class: "superlinear-scaling", Task: 0, Op: oi, Sig: "C20/superlinear-scaling/" + op.Kind + "/" + d.Class,
							Detail: fmt.Sprintf("%s on shape %s: %.1f bytes allocated per input byte at %d bytes, %.1f at %d bytes - cost per byte grows with size", op.Kind, d.Class, prevRatio, prevLen, ratio, len(data))}
					}
				}
				prevRatio, prevLen, prevOK = ratio, len(data), ok
			}
			// (3) differential: a run of small documents on the reader / Buffer that carries the history must
			// not cost much more per call than the same run on a fresh reader / Buffer. This is the statement's
			// "a reader that has once processed a large document does not make an unbounded number of later
			// small documents expensive", without any absolute constant.
			usesReader := len(op.Kind) > 3 && op.Kind[:3] == "VR."
			usesBuffer := op.A == 1 && !isDecoder(op.Kind) && op.Kind != "ReadObject" && op.Kind != "ReadArray"
			if n > 1 && (usesReader || usesBuffer) {
				m := n
				if m > 200 {
					m = 200
				}
				savedReader, savedB := reader, b
				reader = &rjson.ValueReader{}
				if b != nil {
					b = &rjson.Buffer{}
				}
				var f0, f1 runtime.MemStats
				freshPanicked := false
				runtime.ReadMemStats(&f0)
				func() {
					defer func() {
						if recover() != nil {
							freshPanicked = true
						}
					}()
					for i := 0; i < m; i++ {
						call()
					}
				}()
				runtime.ReadMemStats(&f1)
				reader, b = savedReader, savedB
				if !freshPanicked {
					st.probe("small-documents-after-history-vs-fresh-state-compared")
					perCall := float64(delta) / float64(n)
					perFresh := float64(f1.TotalAlloc-f0.TotalAlloc) / float64(m)
					if perCall > 8*perFresh+1024 {
						return &Violation{Class: "later-small-documents-expensive", Task: 0, Op: oi, Sig: "C20/later-small-documents-expensive/" + op.Kind + "/" + d.Class,
							Detail: fmt.Sprintf("after call %d: %s x%d on a %d-byte document (class %s, ok=%v) with the reader / Buffer that processed the earlier documents allocates %.0f bytes per call; the same calls on a fresh reader / Buffer allocate %.0f bytes per call", oi, op.Kind, n, len(data), d.Class, ok, perCall, perFresh)}
					}
				}
			}
			if totalAlloc > bound {
				return &Violation{Class: "superlinear-allocation", Task: 0, Op: oi, Sig: "C20/superlinear-allocation/" + op.Kind + "/" + d.Class,
					Detail: fmt.Sprintf("after call %d (%s x%d on a %d-byte document of class %s, ok=%v): %d bytes allocated so far for %d input bytes in %d calls; bound %d*bytes + %d*calls = %d. This step alone allocated %d bytes = %.1f per input byte", oi, op.Kind, n, len(data), d.Class, ok, totalAlloc, totalIn, calls, c20K, c20C, bound, delta, float64(delta)/float64(uint64(len(data))*uint64(n)+1))}
			}
		}
	}
	return nil
}

// stringReader reads every string member of a traversed container into a fresh destination.
type stringReader struct{ calls int }

func (s *stringReader) member(data []byte) (int, error) {
	s.calls++
	if len(data) > 0 && data[0] == '"' {
		_, p, err := rjson.ReadStringBytes(data, nil)
		return p, err
	}
	return 0, nil
}
func (s *stringReader) HandleArrayValue(data []byte) (int, error)     { return s.member(data) }
func (s *stringReader) HandleObjectValue(_, data []byte) (int, error) { return s.member(data) }

// memberDecoder decodes every member of a traversed container with one long-lived ValueReader.
type memberDecoder struct {
	vr    *rjson.ValueReader
	calls int
}

func (m *memberDecoder) member(data []byte) (int, error) {
	m.calls++
	tt, _, err := rjson.NextTokenType(data)
	if err != nil {
		return 0, err
	}
	switch tt {
	case rjson.ObjectStartType:
		_, p, err := m.vr.ReadObject(data)
		return p, err
	case rjson.ArrayStartType:
		_, p, err := m.vr.ReadArray(data)
		return p, err
	}
	_, p, err := m.vr.ReadValue(data)
	return p, err
}
func (m *memberDecoder) HandleArrayValue(data []byte) (int, error)     { return m.member(data) }
func (m *memberDecoder) HandleObjectValue(_, data []byte) (int, error) { return m.member(data) }

var errNotValid = fmt.Errorf("not valid")

func isDecoder(k string) bool {
	return k == "ReadValue" || (len(k) > 3 && k[:3] == "VR.")
}
