package main

// The operation alphabet: every exported function of package rjson, wrapped so
// that it can be executed from a scenario under recover and its result put in
// comparable form.

import (
	"fmt"
	"math"

	"github.com/willabides/rjson"
)

// opCtx is the caller-owned state an operation may use.
type opCtx struct {
	st      *Stats
	tape    *Tape
	buf     *rjson.Buffer      // nil: no buffer
	dst     []byte             // destination for the appending functions
	scratch *[]byte            // scratch for ReadString / DecodeString (nil allowed)
	reader  *rjson.ValueReader // for the VR.* operations
	tg      *targets
	doc2    []byte
	henv    *hEnv // set by traversals, for the caller to inspect
	noBuf   bool
	quiet   bool
	structH bool
	srcTree interface{} // set by StdLibCompatibleTree: the tree handed to StdLibCompatibleMap / Slice
}

// targets are the Decode destinations; they live for a whole run.
type targets struct {
	b   bool
	f   float64
	i64 int64
	i32 int32
	i   int
	u64 uint64
	u32 uint32
	u   uint
	s   string
}

func (t *targets) snapshot() targets { return *t }

type apiOp struct {
	name      string
	run       func(x *opCtx, data []byte) Outcome
	takesBuf  bool
	handler   bool
	zeroAlloc bool // in C19's list
	usesPool  bool
}

func pe(p int, err error) Outcome { return Outcome{OK: err == nil, P: p, ErrIdx: -1, Err: err} }

func pev(v interface{}, p int, err error) Outcome {
	return Outcome{OK: err == nil, P: p, ErrIdx: -1, Val: normVal(v), Err: err}
}

// normVal puts scalar results of every type into the small universe eqVal compares.
func normVal(v interface{}) interface{} {
	switch x := v.(type) {
	case int64:
		return fmt.Sprintf("i64:%d", x)
	case int32:
		return fmt.Sprintf("i32:%d", x)
	case int:
		return fmt.Sprintf("int:%d", x)
	case uint64:
		return fmt.Sprintf("u64:%d", x)
	case uint32:
		return fmt.Sprintf("u32:%d", x)
	case uint:
		return fmt.Sprintf("uint:%d", x)
	case byte:
		return fmt.Sprintf("byte:%d", x)
	case rjson.TokenType:
		return fmt.Sprintf("tt:%d", x)
	case []byte:
		if x == nil {
			return "bytes:<nil>"
		}
		return "bytes:" + string(x)
	case map[string]interface{}:
		if x == nil {
			return nil
		}
		return x
	case []interface{}:
		if x == nil {
			return nil
		}
		return x
	}
	return v
}

func (x *opCtx) b() *rjson.Buffer {
	if x.noBuf {
		return nil
	}
	return x.buf
}

func (x *opCtx) trav(kind string, data []byte) Outcome {
	e := newHEnv(x.st, x.tape)
	e.buf = x.b()
	e.noBuf = x.noBuf || x.buf == nil
	e.doc2 = x.doc2
	e.quiet = x.quiet
	e.structH = x.structH
	x.henv = e
	return e.traverse(kind, data)
}

var apiOps = []apiOp{
	{name: "Valid", takesBuf: true, zeroAlloc: true, run: func(x *opCtx, d []byte) Outcome {
		ok := rjson.Valid(d, x.b())
		return Outcome{OK: ok, ErrIdx: -1}
	}},
	{name: "SkipValue", takesBuf: true, zeroAlloc: true, run: func(x *opCtx, d []byte) Outcome { return pe(rjson.SkipValue(d, x.b())) }},
	{name: "SkipValueFast", takesBuf: true, zeroAlloc: true, run: func(x *opCtx, d []byte) Outcome { return pe(rjson.SkipValueFast(d, x.b())) }},
	{name: "HandleArrayValues", takesBuf: true, handler: true, zeroAlloc: true, run: func(x *opCtx, d []byte) Outcome { return x.trav("arr", d) }},
	{name: "HandleObjectValues", takesBuf: true, handler: true, zeroAlloc: true, run: func(x *opCtx, d []byte) Outcome { return x.trav("obj", d) }},
	{name: "ReadValue", usesPool: true, run: func(x *opCtx, d []byte) Outcome { return pev(rjson.ReadValue(d)) }},
	{name: "ReadObject", usesPool: true, run: func(x *opCtx, d []byte) Outcome { v, p, err := rjson.ReadObject(d); return pev(v, p, err) }},
	{name: "ReadArray", usesPool: true, run: func(x *opCtx, d []byte) Outcome { v, p, err := rjson.ReadArray(d); return pev(v, p, err) }},
	{name: "VR.ReadValue", usesPool: true, run: func(x *opCtx, d []byte) Outcome { return pev(x.reader.ReadValue(d)) }},
	{name: "VR.ReadObject", usesPool: true, run: func(x *opCtx, d []byte) Outcome { v, p, err := x.reader.ReadObject(d); return pev(v, p, err) }},
	{name: "VR.ReadArray", usesPool: true, run: func(x *opCtx, d []byte) Outcome { v, p, err := x.reader.ReadArray(d); return pev(v, p, err) }},
	{name: "ReadString", run: func(x *opCtx, d []byte) Outcome { v, p, err := rjson.ReadString(d, x.scratch); return pev(v, p, err) }},
	{name: "ReadStringBytes", zeroAlloc: true, run: func(x *opCtx, d []byte) Outcome {
		v, p, err := rjson.ReadStringBytes(d, x.dst)
		x.dst = v
		return pev(v, p, err)
	}},
	{name: "UnescapeStringContent", zeroAlloc: true, run: func(x *opCtx, d []byte) Outcome {
		v, p, err := rjson.UnescapeStringContent(d, x.dst)
		x.dst = v
		return pev(v, p, err)
	}},
	{name: "StdLibCompatibleStringBytes", run: func(x *opCtx, d []byte) Outcome {
		v := rjson.StdLibCompatibleStringBytes(d, x.dst)
		x.dst = v
		return pev(v, 0, nil)
	}},
	{name: "StdLibCompatibleString", run: func(x *opCtx, d []byte) Outcome { return pev(rjson.StdLibCompatibleString(string(d)), 0, nil) }},
	{name: "ReadFloat64", zeroAlloc: true, run: func(x *opCtx, d []byte) Outcome { v, p, err := rjson.ReadFloat64(d); return pev(v, p, err) }},
	{name: "ReadInt64", zeroAlloc: true, run: func(x *opCtx, d []byte) Outcome { v, p, err := rjson.ReadInt64(d); return pev(v, p, err) }},
	{name: "ReadUint64", zeroAlloc: true, run: func(x *opCtx, d []byte) Outcome { v, p, err := rjson.ReadUint64(d); return pev(v, p, err) }},
	{name: "ReadInt32", zeroAlloc: true, run: func(x *opCtx, d []byte) Outcome { v, p, err := rjson.ReadInt32(d); return pev(v, p, err) }},
	{name: "ReadUint32", zeroAlloc: true, run: func(x *opCtx, d []byte) Outcome { v, p, err := rjson.ReadUint32(d); return pev(v, p, err) }},
	{name: "ReadInt", zeroAlloc: true, run: func(x *opCtx, d []byte) Outcome { v, p, err := rjson.ReadInt(d); return pev(v, p, err) }},
	{name: "ReadUint", zeroAlloc: true, run: func(x *opCtx, d []byte) Outcome { v, p, err := rjson.ReadUint(d); return pev(v, p, err) }},
	{name: "ReadBool", zeroAlloc: true, run: func(x *opCtx, d []byte) Outcome { v, p, err := rjson.ReadBool(d); return pev(v, p, err) }},
	{name: "ReadNull", zeroAlloc: true, run: func(x *opCtx, d []byte) Outcome { return pe(rjson.ReadNull(d)) }},
	{name: "NextToken", zeroAlloc: true, run: func(x *opCtx, d []byte) Outcome { v, p, err := rjson.NextToken(d); return pev(v, p, err) }},
	{name: "NextTokenType", zeroAlloc: true, run: func(x *opCtx, d []byte) Outcome { v, p, err := rjson.NextTokenType(d); return pev(v, p, err) }},
	{name: "DecodeBool", zeroAlloc: true, run: func(x *opCtx, d []byte) Outcome { p, err := rjson.DecodeBool(d, &x.tg.b); return pev(x.tg.b, p, err) }},
	{name: "DecodeFloat64", zeroAlloc: true, run: func(x *opCtx, d []byte) Outcome {
		p, err := rjson.DecodeFloat64(d, &x.tg.f)
		return pev(x.tg.f, p, err)
	}},
	{name: "DecodeInt64", zeroAlloc: true, run: func(x *opCtx, d []byte) Outcome {
		p, err := rjson.DecodeInt64(d, &x.tg.i64)
		return pev(x.tg.i64, p, err)
	}},
	{name: "DecodeInt32", zeroAlloc: true, run: func(x *opCtx, d []byte) Outcome {
		p, err := rjson.DecodeInt32(d, &x.tg.i32)
		return pev(x.tg.i32, p, err)
	}},
	{name: "DecodeInt", zeroAlloc: true, run: func(x *opCtx, d []byte) Outcome { p, err := rjson.DecodeInt(d, &x.tg.i); return pev(x.tg.i, p, err) }},
	{name: "DecodeUint64", zeroAlloc: true, run: func(x *opCtx, d []byte) Outcome {
		p, err := rjson.DecodeUint64(d, &x.tg.u64)
		return pev(x.tg.u64, p, err)
	}},
	{name: "DecodeUint32", zeroAlloc: true, run: func(x *opCtx, d []byte) Outcome {
		p, err := rjson.DecodeUint32(d, &x.tg.u32)
		return pev(x.tg.u32, p, err)
	}},
	{name: "DecodeUint", zeroAlloc: true, run: func(x *opCtx, d []byte) Outcome { p, err := rjson.DecodeUint(d, &x.tg.u); return pev(x.tg.u, p, err) }},
	{name: "DecodeString", run: func(x *opCtx, d []byte) Outcome {
		p, err := rjson.DecodeString(d, &x.tg.s, x.scratch)
		return pev(x.tg.s, p, err)
	}},
	{name: "TokenType.String", run: func(x *opCtx, d []byte) Outcome {
		tt, p, err := rjson.NextTokenType(d)
		s := tt.String()
		if len(d) > 0 {
			// any byte value as a TokenType: most of them have no name
			s += "|" + rjson.TokenType(d[len(d)-1]).String() + "|" + rjson.TokenType(d[len(d)/2]|0x80).String()
		}
		return pev(s, p, err)
	}},
	{name: "NestedDescent", takesBuf: true, handler: true, run: func(x *opCtx, d []byte) Outcome {
		// a handler that recurses through the public traversal functions, one Go call level per
		// nesting level of the document (user-level recursion: bounded here, it is not the library's)
		if bracketDepth(d) > 4000 {
			return pe(rjson.SkipValue(d, x.b()))
		}
		h := &descentHandler{}
		p, err := h.descend(d)
		return pev(fmt.Sprintf("descent:members=%d,maxdepth=%d", h.members, h.max), p, err)
	}},
	{name: "StdLibCompatibleTreeHot", usesPool: true, run: func(x *opCtx, d []byte) Outcome {
		// the helper in a hot loop on one decoded tree, every result looked at the moment it is returned:
		// a pure function must return the same complete tree every time, also while other goroutines do the same
		v, p, err := rjson.ReadValue(d)
		collide := false
		sanitizeTree(v, &collide)
		if err != nil || collide {
			return pev(nil, p, err)
		}
		conv := func() interface{} {
			switch t := v.(type) {
			case map[string]interface{}:
				return rjson.StdLibCompatibleMap(t)
			case []interface{}:
				return rjson.StdLibCompatibleSlice(t)
			}
			return v
		}
		want := sanitizeTree(v, &collide) // what the helper is specified to return (C17), computed by the harness
		for i := 0; i < 16; i++ {
			if got := conv(); !eqVal(got, want) {
				return pev(fmt.Sprintf("call %d of 16 returned a tree that is not (yet?) the complete converted tree", i), p, nil)
			}
		}
		return pev("16 calls, 16 complete results", p, nil)
	}},
	{name: "StdLibCompatibleTree", usesPool: true, run: func(x *opCtx, d []byte) Outcome {
		v, p, err := rjson.ReadValue(d)
		x.srcTree = v // the argument of the helper: the caller still owns it
		// When two keys of one object become equal after U+FFFD replacement, which value survives is
		// decided by Go's map iteration order - C17 excludes that case by name, and no other property says
		// anything about it. The outcome of such a call is therefore reduced to what IS determined.
		collide := false
		sanitizeTree(v, &collide)
		if collide {
			return pev("StdLibCompatible helpers: keys collide after replacement (result is iteration-order dependent by definition)", p, err)
		}
		switch t := v.(type) {
		case map[string]interface{}:
			return pev(rjson.StdLibCompatibleMap(t), p, err)
		case []interface{}:
			return pev(rjson.StdLibCompatibleSlice(t), p, err)
		}
		return pev(v, p, err)
	}},
}

type descentHandler struct{ depth, max, members int }

func (h *descentHandler) descend(d []byte) (int, error) {
	tt, _, err := rjson.NextTokenType(d)
	if err != nil {
		return 0, err
	}
	h.depth++
	if h.depth > h.max {
		h.max = h.depth
	}
	defer func() { h.depth-- }()
	switch tt {
	case rjson.ArrayStartType:
		return rjson.HandleArrayValues(d, h, nil)
	case rjson.ObjectStartType:
		return rjson.HandleObjectValues(d, h, nil)
	}
	return rjson.SkipValue(d, nil)
}

func (h *descentHandler) HandleArrayValue(d []byte) (int, error) {
	h.members++
	return h.descend(d)
}

func (h *descentHandler) HandleObjectValue(_, d []byte) (int, error) {
	h.members++
	return h.descend(d)
}

var apiIndex = func() map[string]*apiOp {
	m := map[string]*apiOp{}
	for i := range apiOps {
		m[apiOps[i].name] = &apiOps[i]
	}
	return m
}()

func apiNames(filter func(*apiOp) bool) []string {
	var out []string
	for i := range apiOps {
		if filter == nil || filter(&apiOps[i]) {
			out = append(out, apiOps[i].name)
		}
	}
	return out
}

// runAPI executes one operation under recover.
func runAPI(name string, x *opCtx, data []byte) (out Outcome) {
	op := apiIndex[name]
	if op == nil {
		panic(harnessError("unknown operation " + name))
	}
	if x.tg == nil {
		x.tg = &targets{}
	}
	if x.reader == nil && op.usesPool {
		x.reader = &rjson.ValueReader{}
	}
	defer func() {
		if r := recover(); r != nil {
			out = Outcome{Panic: panicString(r), ErrIdx: -1}
			if x.henv != nil {
				out.CBs = x.henv.cbs
			}
		}
	}()
	defer panicOnFault()() // a memory fault (guarded inputs, guard.go) is a panic, not the end of the process
	return op.run(x, data)
}

var _ = math.MaxInt
