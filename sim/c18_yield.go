//go:build verifyield

package main

import (
	"fmt"
	"runtime"

	"github.com/willabides/rjson"
)

// C18 stage A: deterministic interleaving. Built only against the instrumented
// copy of the repository (rjson.SetVerifYield / rjson.VerifSites exist there).

type c18 struct{}

func init() { register(c18{}) }

func (c18) ID() string    { return "C18" }
func (c18) Level() string { return "exploration" }
func (c18) Procs() int    { return 2 }
func (c18) Budget(tier string) (int, int) {
	if tier == "thorough" {
		return 30000000, 480
	}
	return 60000, 90
}
func (c18) Rule() string {
	return fmt.Sprintf("stage A (deterministic): 2-6 tasks, each a real goroutine with private Buffer / ValueReader / destinations / Decode targets executing 1-5 operations drawn from the whole exported API on 1-4 SHARED read-only documents; half of the scenarios make all tasks run the same function. The library is an AST-instrumented copy of /repo's working tree with a yield at every function entry, loop body, Ragel state label and in front of every other statement (%d sites in this build); simulator-owned handler callbacks run between yields. Exactly one task is runnable; the schedule tape names which task runs next and for how many yields. Three schedule families: random quanta (1..256 yields); preemption-bounded (1-3 preemptions in all, each at a yield count derived from the task's own sequential run, another task running to completion in the gap); and a bounded-exhaustive single-preemption sweep (one block of 1,024 consecutive scenario indices in eight shares one two-task base scenario and preempts task k/512 after exactly k%%512+1 yields). One scenario in six makes every task do identical work. Documents include objects with many distinct field names, arrays of records, and string tokens whose length sits around a power of two (256..64 Ki) with a late first escape. Error texts (read right after the call returns) are part of the compared result. Oracle: every operation's outcome equals its outcome when the same scenario runs one task after another in the same binary; shared documents unchanged. Non-trivial: at least one task switch landed inside a library call; distinct = distinct hashes of the (task, yield-site kind) switch sequence plus operations.", len(rjson.VerifSites))
}
func (c18) Assumptions() []string {
	return []string{
		"interleaving granularity is the instrumented yield sites (function entries, loop bodies, one per consumed byte in the state machines), not single machine instructions; data races proper are stage B's business",
		"hand-over between tasks goes through channels, which is why the race detector is blind in this stage",
	}
}
func (c18) Required(tier string) []string {
	return []string{"S-switch", "switch-at-state-label", "switch-at-loop", "switch-at-func-entry", "switch-inside-fp", "switch-inside-handler-traversal", "same-function-in-all-tasks", "all-tasks-deep-in-user-recursion", "switch-between-two-statements", "preemption-bounded-schedule", "single-preemption-sweep", "identical-work-in-all-tasks", "documents-are-windows-of-one-shared-read-buffer"}
}
func (c18) Gen(r *Rand, sc *Scenario, tier string) { genC18(r, sc, tier) }

type ytask struct {
	id      int
	run     chan struct{}
	quantum int
	done    bool
	outs    []Outcome
	curOp   string
	yields  int // yields this task has made so far
	// shared-state aiming: yields made at sites inside functions that mention a mutable package-level
	// variable, and (quantum == -2) how many more of those to run before parking
	sharedYields int
	sharedLeft   int
	goid         uint64 // the goroutine that IS this task; only it may be parked by a yield
}

// curGoid returns the id of the calling goroutine (parsed from the header line of its stack trace).
// Only used at the moment a task is about to be parked: a goroutine that the library itself started
// (should a tree ever do that) runs through the same yield sites as the task that spawned it, and
// parking it in the task's place would hand the scheduler a goroutine it does not own.
func curGoid() uint64 {
	var buf [64]byte
	n := runtime.Stack(buf[:], false)
	// "goroutine 123 [running]:"
	var id uint64
	for _, c := range buf[len("goroutine "):n] {
		if c < '0' || c > '9' {
			break
		}
		id = id*10 + uint64(c-'0')
	}
	return id
}

// sharedSite[i]: yield site i lies in a function that mentions a package-level variable some
// function may modify (found by the instrumenter; none on a tree without such state).
var sharedSite = func() []bool {
	out := make([]bool, len(rjson.VerifSites))
	for i, s := range rjson.VerifSites {
		out[i] = s[3] == "shared"
	}
	return out
}()

const aimShared = 1 << 50

type ysched struct {
	cur      *ytask
	yielded  chan struct{}
	yields   int
	lastSite int
	harness  interface{}
	foreign  int // yields made by goroutines that are not tasks
}

func (s *ysched) yield(site int) {
	s.yields++
	t := s.cur
	if t == nil {
		return
	}
	t.yields++
	if site < len(sharedSite) && sharedSite[site] {
		t.sharedYields++
		if t.quantum == -2 {
			t.sharedLeft--
			if t.sharedLeft <= 0 && curGoid() == t.goid {
				t.quantum = -1
				s.lastSite = site
				s.yielded <- struct{}{}
				<-t.run
			}
			return
		}
	}
	if t.quantum < 0 {
		return
	}
	t.quantum--
	if t.quantum > 0 {
		return
	}
	if curGoid() != t.goid {
		s.foreign++ // a goroutine started inside the library: it is not the scheduler's to park
		return
	}
	s.lastSite = site
	s.yielded <- struct{}{}
	<-t.run
}

// runInterleaved executes the scenario under the schedule tape.
func runInterleaved(sc *Scenario, st *Stats, tape *Tape, docs [][]byte) ([][]Outcome, []int, []int) {
	s := &ysched{yielded: make(chan struct{})}
	rjson.SetVerifYield(s.yield)
	defer rjson.SetVerifYield(nil)
	tasks := make([]*ytask, len(sc.Tasks))
	for ti := range sc.Tasks {
		t := &ytask{id: ti, run: make(chan struct{})}
		tasks[ti] = t
		go func(t *ytask, ops []Op) {
			t.goid = curGoid()
			<-t.run
			defer func() {
				if r := recover(); r != nil {
					s.harness = r
				}
				t.done = true
				s.yielded <- struct{}{}
			}()
			ts := newTaskState(nil)
			for _, op := range ops {
				t.curOp = op.Kind
				t.outs = append(t.outs, ts.runTaskOp(op, docs, nil))
			}
		}(t, sc.Tasks[ti])
	}
	runnable := append([]*ytask(nil), tasks...)
	for len(runnable) > 0 {
		e := tape.Next()
		idx, q := 0, -1
		if e > 0 {
			e--
			idx = (e >> 8) % len(runnable)
			q = e&0xff + 1
		} else if e < 0 {
			// -(task id + 64*quantum): a task named by its id (the first runnable one if it has
			// finished) and a quantum of any size
			v := -e
			q = v / 64
			for i, t := range runnable {
				if t.id == v%64 {
					idx = i
				}
			}
			if q >= aimShared {
				runnable[idx].sharedLeft = q - aimShared
				q = -2
			}
		}
		t := runnable[idx]
		t.quantum = q
		s.cur = t
		t.run <- struct{}{}
		<-s.yielded
		s.cur = nil
		if t.done {
			runnable = append(runnable[:idx:idx], runnable[idx+1:]...)
			if st != nil {
				st.evi("done", t.id)
			}
			continue
		}
		if st != nil {
			site := rjson.VerifSites[s.lastSite]
			st.fault("S-switch")
			switch site[1] {
			case "state":
				st.probe("switch-at-state-label")
			case "loop":
				st.probe("switch-at-loop")
			case "func":
				st.probe("switch-at-func-entry")
			case "stmt":
				st.probe("switch-between-two-statements")
			}
			if len(site[0]) > 11 && site[0][:11] == "internal/fp" {
				st.probe("switch-inside-fp")
			}
			if t.curOp == "HandleArrayValues" || t.curOp == "HandleObjectValues" {
				st.probe("switch-inside-handler-traversal")
			}
			st.evi("sw", t.id)
			st.ev(site[1])
		}
	}
	if s.harness != nil {
		if he, ok := s.harness.(harnessError); ok {
			panic(he)
		}
		panic(harnessError(fmt.Sprint("task panicked outside an operation: ", s.harness)))
	}
	if st != nil {
		st.Events += s.yields
	}
	out := make([][]Outcome, len(tasks))
	ys := make([]int, len(tasks))
	sh := make([]int, len(tasks))
	for i, t := range tasks {
		out[i] = t.outs
		ys[i] = t.yields
		sh[i] = t.sharedYields
	}
	return out, ys, sh
}

func (c18) Exec(sc *Scenario, st *Stats) *Violation {
	pool := newSimPool(nil, nil)
	pool.install()
	defer uninstallPool()
	if len(sc.Tasks) == 0 {
		return nil
	}
	for _, ops := range sc.Tasks {
		for _, op := range ops {
			st.ev(op.Kind)
		}
	}
	same := true
	for _, ops := range sc.Tasks {
		for _, op := range ops {
			if op.Kind != sc.Tasks[0][0].Kind {
				same = false
			}
		}
	}
	if same {
		st.probe("same-function-in-all-tasks")
	}
	if sc.cfg("deep-recursion-in-every-task") == 1 {
		st.probe("all-tasks-deep-in-user-recursion")
	}
	// reference: the same machinery with an empty schedule = one task after another
	seq, seqYields, seqShared := runInterleaved(sc, nil, NewTape(nil), buildDocs(sc))
	docs := buildDocs(sc)
	snap := buildDocs(sc)
	sched := sc.Sched
	if sc.cfg("single-preemption") == 1 {
		// (a, x, b) triples: task a is stopped after 1 + x mod (the yields it makes when run alone)
		// yields, task b runs to completion in the gap
		sched = nil
		ran := make([]int, len(sc.Tasks))
		for i := 0; i+2 < len(sc.Sched); i += 3 {
			a, x, b := sc.Sched[i]%len(sc.Tasks), sc.Sched[i+1], sc.Sched[i+2]%len(sc.Tasks)
			if x < 0 {
				continue
			}
			if sc.cfg("aim-at-shared-state") == 1 {
				// stop the task at one of its yields inside a function that touches mutable package-level
				// state, if it makes any (a tree without such state has no such yields: plain preemption then)
				for k := 0; k < len(sc.Tasks) && seqShared[a] == 0; k++ {
					a = (a + 1) % len(sc.Tasks)
				}
				if b == a {
					b = (a + 1) % len(sc.Tasks)
				}
				if seqShared[a] > 0 {
					n := 1 + x%seqShared[a]
					if sc.cfg("sweep-block") != 0 {
						n = 1 + x
					}
					sched = append(sched, -(a + 64*(aimShared+n)), -(b + 64*(1<<40)))
					st.probe("preemption-aimed-at-shared-state-site")
					st.probe("preemption-bounded-schedule")
					continue
				}
			}
			left := seqYields[a] - ran[a]
			if left <= 1 {
				continue
			}
			n := 1 + x%left
			if sc.cfg("sweep-block") != 0 {
				n = 1 + x // sweep: the offset itself; beyond the task's last yield nothing is preempted
			}
			if sc.cfg("x-is-percent") == 1 {
				n = 1 + seqYields[a]*(x%100)/100
			}
			ran[a] += n
			sched = append(sched, -(a + 64*n))
			if b != a {
				sched = append(sched, -(b + 64*(1<<40))) // b == a: nobody runs in the gap, a just stays parked
			} else if len(sc.Tasks) > 1 && i+3 >= len(sc.Sched) {
				// all stops placed: the remaining tasks (highest id first) run to completion before the parked ones resume
				for t := len(sc.Tasks) - 1; t >= 0; t-- {
					sched = append(sched, -(t + 64*(1<<40)))
				}
			}
			st.probe("preemption-bounded-schedule")
		}
		if sc.cfg("sweep-block") != 0 {
			st.probe("single-preemption-sweep")
		}
	}
	if sc.cfg("identical-tasks") == 1 {
		st.probe("identical-work-in-all-tasks")
	}
	con, _, _ := runInterleaved(sc, st, NewTape(sched), docs)
	if i := docsEqual(docs, snap); i >= 0 {
		return &Violation{Class: "shared-input-modified", Task: -1, Op: -1, Sig: "C18/shared-input-modified", Detail: fmt.Sprintf("shared document %d (or the bytes within its capacity) was modified", i)}
	}
	if sc.cfg("docs-in-one-arena") == 1 {
		st.probe("documents-are-windows-of-one-shared-read-buffer")
	}
	return compareRuns(sc, seq, con, "interleaved by the schedule tape")
}
