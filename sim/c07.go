package main

import (
	"bytes"
	"fmt"

	"github.com/willabides/rjson"
)

// C07 — handlers see each member exactly once, in order; traversal still validates.

type c07 struct{}

func init() { register(c07{}) }

func (c07) ID() string    { return "C07" }
func (c07) Level() string { return "exploration" }
func (c07) Procs() int    { return 2 }
func (c07) Budget(tier string) (int, int) {
	if tier == "thorough" {
		return 60000000, 600
	}
	return 60000, 90
}
func (c07) Rule() string {
	return "seeded scenarios: 1-4 HandleArrayValues/HandleObjectValues calls on generated / mutated / deep documents, with no Buffer or with one Buffer reused across the calls of the scenario (sometimes used on a 10,001..30,000-deep document first), through a HandlerFunc adapter or a struct handler, each with a decision tape that makes the simulator-owned handler decline (return 0), consume (return the member's exact end as computed by the reference parser) or run a nested traversal, per callback; containers of <= 8 members get every 2^n decline/consume mix in the thorough tier. A run is non-trivial when at least one callback took a decision; distinct = distinct hashes of (operation kind, document class, verdict, per-callback decision) sequences."
}
func (c07) Assumptions() []string {
	return []string{
		"the reference parser (model.go) is RFC 8259; it is cross-checked against encoding/json on every document of every run (disagreement = exit 2)",
		"documents nested at most 10,000 deep (the property's bound)",
		"input space is sampled by the generator, the handler-decision space is sampled (enumerated for small containers)",
	}
}
func (c07) Required(tier string) []string {
	return []string{"H-decline", "H-consume", "H-nested", "malformed-member-declined", "null-root", "deep-root", "reused-buffer", "buffer-used-on-deeper-document-before", "every-cut-or-overwrite-position-of-one-document", "thousands-of-failing-calls-on-the-buffer-before"}
}

// genContainerDoc generates a document whose first value is a container of the
// requested kind with n members.
func genContainerDoc(r *Rand, obj bool, n int, budget int) []byte {
	cfg := randCfg(r, budget)
	var b bytes.Buffer
	if r.Chance(1, 4) {
		genWS(r, &b, &genCfg{ws: 2})
	}
	open, cl := byte('['), byte(']')
	if obj {
		open, cl = '{', '}'
	}
	b.WriteByte(open)
	genWS(r, &b, cfg)
	for i := 0; i < n; i++ {
		if i > 0 {
			b.WriteByte(',')
			genWS(r, &b, cfg)
		}
		if obj {
			genKey(r, &b, cfg)
			genWS(r, &b, cfg)
			b.WriteByte(':')
			genWS(r, &b, cfg)
		}
		genValue(r, &b, cfg, 1)
		genWS(r, &b, cfg)
	}
	b.WriteByte(cl)
	return b.Bytes()
}

func memberCount(r *Rand) int {
	switch r.Pick(1, 6, 3, 1) {
	case 0:
		return 0
	case 1:
		return r.Range(1, 5)
	case 2:
		return r.Range(5, 16)
	}
	return r.Range(16, 64)
}

// genTraversalDoc draws a document for a traversal of the given kind.
func genTraversalDoc(r *Rand, obj bool, deepOK bool) Doc {
	dw := 0
	if deepOK {
		dw = 1
	}
	switch r.Pick(12, 4, 1, 2, dw, 1) {
	case 0:
		return docOf(withTrailer(r, genContainerDoc(r, obj, memberCount(r), 2000)), "container")
	case 1:
		d := genContainerDoc(r, obj, memberCount(r), 600)
		return docMut(r, d, "container-mut")
	case 2:
		return docOf(withTrailer(r, []byte([]string{"null", " null", "\n\tnull ", "null,"}[r.Intn(4)])), "null-root")
	case 3:
		// the other container kind or a scalar root
		if r.Chance(1, 2) {
			return docOf(genContainerDoc(r, !obj, memberCount(r), 300), "other-container")
		}
		return docOf(genTreeBytes(r, 60), "any-root")
	case 4:
		n := []int{100, 1000, 9999, 10000}[r.Intn(4)]
		if r.Chance(1, 2) {
			root := 1
			if obj {
				root = 2
			}
			return deepDocAny(r, n, []string{"1", `"x"`, "[]", "{}", "nul", "1e5", "[0,[]]"}[r.Intn(7)], root)
		}
		mix := []int{0, 2, 3}[r.Intn(3)]
		if obj {
			mix = []int{1, 1, 1}[r.Intn(3)]
		}
		return deepDoc(mix, n, []string{"1", `"x"`, "[]", "{}", "nul"}[r.Intn(5)])
	}
	return docOf(mutateDoc(r, []byte([]string{"null", "nul", "[", "{", "", " ", "[]", "{}"}[r.Intn(8)])), "edge")
}

func genDecisionTape(r *Rand, n int, nestedOK bool) []int {
	t := make([]int, n)
	style := r.Pick(2, 2, 4, 1)
	for i := range t {
		switch style {
		case 0:
			t[i] = dDecline
		case 1:
			t[i] = dConsume
		case 2:
			t[i] = r.Intn(2)
		case 3:
			t[i] = r.Intn(2)
			if nestedOK && r.Chance(1, 2) {
				t[i] = mkDec(dNested, r.Intn(6))
			}
		}
	}
	return t
}

func (c07) Gen(r *Rand, sc *Scenario, tier string) {
	nops := []int{1, 1, 2, 3, 4}[r.Intn(5)]
	var ops []Op
	// enumeration family: small container, all 2^n mixes laid out over consecutive indices
	if tier == "thorough" && sc.Index%4 == 0 {
		obj := (sc.Index/4)%2 == 1
		n := r.Range(1, 8)
		doc := docOf(genContainerDoc(r, obj, n, 400), "container-enum")
		sc.Docs = append(sc.Docs, doc)
		for mask := 0; mask < 1<<uint(n); mask++ {
			t := make([]int, n)
			for i := range t {
				t[i] = (mask >> uint(i)) & 1
			}
			ops = append(ops, Op{Kind: kindName(obj), Doc: 0, Tape: t})
		}
		sc.Tasks = [][]Op{ops}
		sc.Cfg["enum"] = n
		return
	}
	if sc.Index%16 == 1 {
		// cut sweep: one small, richly nested container, traversed at EVERY truncation point (and, for
		// every second scenario of this kind, with one control byte / stray structural byte written over
		// every position instead): the end of input and a bad byte meet every state of the machines
		obj := (sc.Index/16)%2 == 1
		cfg := randCfg(r, 140)
		cfg.maxDepth = r.Range(2, 5)
		var b bytes.Buffer
		open, cl := byte('['), byte(']')
		if obj {
			open, cl = '{', '}'
		}
		b.WriteByte(open)
		for i, n := 0, r.Range(2, 5); i < n; i++ {
			if i > 0 {
				b.WriteByte(',')
			}
			if obj {
				genKey(r, &b, cfg)
				b.WriteByte(':')
			}
			genValue(r, &b, cfg, 1)
		}
		b.WriteByte(cl)
		full := b.Bytes()
		if len(full) > 160 {
			full = full[:160]
		}
		overwrite := (sc.Index/32)%2 == 1
		tape := genDecisionTape(r, 40, true)
		if r.Chance(1, 2) {
			tape = nil // decline everything: the embedded skippers validate every byte
		}
		for i := 0; i <= len(full); i++ {
			var d Doc
			if overwrite {
				if i == len(full) {
					break
				}
				nb := append([]byte(nil), full...)
				nb[i] = []byte{0x00, 0x1f, '\n', '"', '\\', ',', ':', '}', ']', '[', '{', 'e', 'E', '.', '-', '0', 0x80}[r.Intn(17)]
				d = docOf(nb, "sweep-overwrite")
			} else {
				d = docCut(r, full, full[:i], "sweep-cut")
			}
			sc.Docs = append(sc.Docs, d)
			ops = append(ops, Op{Kind: kindName(obj), Doc: len(sc.Docs) - 1, Tape: tape, A: r.Intn(2), B: r.Intn(2)})
		}
		sc.Tasks = [][]Op{ops}
		sc.Cfg["sweep"] = 1
		return
	}
	if r.Chance(1, 30) {
		// thousands of failing calls on the one Buffer (malformed input, wrong root, handler errors),
		// then ordinary calls with it: what a failing call leaves behind must not add up
		fails := []string{"[1,", `{"a"`, "x", `[1 2]`, `{"a":1,}`, "1", `[[[[`, `{"a":{"b":[`}
		obj := r.Chance(1, 2)
		sc.Docs = append(sc.Docs, docOf([]byte(fails[r.Intn(len(fails))]), "fails"))
		op := Op{Kind: kindName(obj), Doc: 0, A: 1, Rep: []int{10001, 12000}[r.Intn(2)], Tape: genDecisionTape(r, 4, true)}
		if r.Chance(1, 3) {
			sc.Docs[0] = docOf(genContainerDoc(r, obj, r.Range(2, 5), 80), "container")
			op.Tape = []int{0, mkDec(dError, r.Intn(nErrKinds))} // aborted by the handler every time
		}
		ops = append(ops, op)
		for i := 0; i < 2; i++ {
			o2 := r.Chance(1, 2)
			sc.Docs = append(sc.Docs, genTraversalDoc(r, o2, false))
			ops = append(ops, Op{Kind: kindName(o2), Doc: len(sc.Docs) - 1, A: 1, B: r.Intn(2), Tape: genDecisionTape(r, 20, true)})
		}
		sc.Tasks = [][]Op{ops}
		sc.Cfg["many-failing-calls-first"] = 1
		return
	}
	for i := 0; i < nops; i++ {
		obj := r.Chance(1, 2)
		sc.Docs = append(sc.Docs, genTraversalDoc(r, obj, true))
		_ = i
		op := Op{Kind: kindName(obj), Doc: len(sc.Docs) - 1, Tape: genDecisionTape(r, r.Range(0, 70), true), A: r.Intn(2), B: r.Intn(2)}
		if r.Chance(1, 12) {
			// history: the same Buffer was used on a far deeper document before (outside the
			// property's own quantifier, so that call is executed but not judged)
			sc.Docs = append(sc.Docs, deepDoc([]int{0, 2, 3, 1}[r.Intn(4)], []int{10001, 10002, 12000, 30000}[r.Intn(4)], "1"))
			k := kindName(r.Chance(1, 2))
			ops = append(ops, Op{Kind: k, Doc: len(sc.Docs) - 1, A: 1, Tape: []int{r.Intn(2)}})
			op.A = 1
		}
		ops = append(ops, op)
	}
	sc.Tasks = [][]Op{ops}
}

func kindName(obj bool) string {
	if obj {
		return "HandleObjectValues"
	}
	return "HandleArrayValues"
}

func travKind(kind string) string {
	if kind == "HandleObjectValues" {
		return "obj"
	}
	return "arr"
}

func (c07) Exec(sc *Scenario, st *Stats) *Violation {
	shared := &rjson.Buffer{}
	if sc.cfg("sweep") == 1 {
		st.probe("every-cut-or-overwrite-position-of-one-document")
	}
	for oi, op := range sc.Tasks[0] {
		doc := sc.Docs[op.Doc].Bytes()
		if len(doc) <= 1<<16 {
			selfCheckDoc(doc)
		}
		root, ok := refParse(doc, true)
		if ok && root.Depth > 10000 {
			// outside the property's quantifier: executed for its effect on the shared Buffer, not judged
			e := newHEnv(st, NewTape(op.Tape))
			e.quiet = true
			if op.A == 1 {
				e.buf = shared
			} else {
				e.noBuf = true
			}
			e.traverse(travKind(op.Kind), doc)
			st.probe("buffer-used-on-deeper-document-before")
			st.ev("history")
			continue
		}
		if op.Rep > 1 {
			// history only: the same (failing) call many times over on the shared Buffer
			for k := 0; k < op.Rep; k++ {
				e := newHEnv(st, NewTape(op.Tape))
				e.quiet = true
				e.buf = shared
				e.traverse(travKind(op.Kind), doc)
			}
			st.probe("thousands-of-failing-calls-on-the-buffer-before")
			st.ev("history-rep")
			continue
		}
		obj := op.Kind == "HandleObjectValues"
		wantOK := ok && (root.Kind == KNull || (obj && root.Kind == KObj) || (!obj && root.Kind == KArr))
		e := newHEnv(st, NewTape(op.Tape))
		e.structH = op.B%2 == 1
		if op.A == 1 {
			e.buf = shared
			st.probe("reused-buffer")
		} else {
			e.noBuf = true
		}
		st.ev(op.Kind)
		st.ev(sc.Docs[op.Doc].Class)
		out := e.traverse(travKind(op.Kind), doc)
		viol := func(class, detail string) *Violation {
			return &Violation{Class: class, Task: 0, Op: oi, Sig: "C07/" + class + "/" + op.Kind,
				Detail: fmt.Sprintf("%s on %q: %s", op.Kind, clip(string(doc), 80), detail)}
		}
		if out.Panic != "" {
			// a panic under a well-behaved handler is a failure to report the right verdict
			return viol("panic", out.Panic)
		}
		if ok && root.Kind == KNull {
			st.probe("null-root")
		}
		if ok && root.Depth >= 100 {
			st.probe("deep-root")
		}
		for _, cb := range out.CBs {
			if cb.Dec == dDeclineForced {
				st.probe("malformed-member-declined")
			}
		}
		st.evi("verdict", b2i(out.OK))
		if out.OK != wantOK {
			return viol("verdict", fmt.Sprintf("returned success=%v, reference says %v (well-formed=%v)", out.OK, wantOK, ok))
		}
		if !out.OK {
			continue
		}
		st.NonTrivial = st.NonTrivial || len(out.CBs) > 0
		if out.P != root.End {
			return viol("offset", fmt.Sprintf("returned offset %d, value ends at %d", out.P, root.End))
		}
		// callback history at level 0 against the member table; nested levels against their own containers
		if v := checkHistory(doc, root, out.CBs, 0, new(int)); v != "" {
			return viol("history", v)
		}
	}
	return nil
}

func b2i(b bool) int {
	if b {
		return 1
	}
	return 0
}

// checkHistory walks the recorded callbacks in order and matches them against
// the members of n: one callback per member, in document order, starting at
// the member's first byte, with the raw key bytes. A callback that started a
// nested traversal is followed by the history of that traversal.
func checkHistory(doc []byte, n *Node, cbs []CB, level int, pos *int) string {
	if n.Kind == KNull {
		return ""
	}
	for i, kid := range n.Kids {
		if *pos >= len(cbs) {
			return fmt.Sprintf("level %d: member %d (at offset %d) got no callback; %d callbacks in all", level, i, kid.Start, len(cbs))
		}
		cb := cbs[*pos]
		*pos++
		if cb.Level != level {
			return fmt.Sprintf("level %d: member %d: callback %v belongs to level %d", level, i, cb, cb.Level)
		}
		// Start is relative to the document of the callback's own traversal
		base := 0
		if level > 0 {
			base = n.Start
		}
		if cb.Start+base != kid.Start {
			return fmt.Sprintf("level %d: callback %d was given data starting at offset %d, member %d starts at %d", level, i, cb.Start+base, i, kid.Start)
		}
		if !cb.AddrOK {
			return fmt.Sprintf("level %d: callback %d: data is not the suffix of the input it should be", level, i)
		}
		if n.Kind == KObj {
			k := n.Keys[i]
			if !cb.HasKey || cb.Key != string(doc[k.RawStart:k.RawEnd]) {
				return fmt.Sprintf("level %d: callback %d got key %q, raw key bytes are %q", level, i, cb.Key, doc[k.RawStart:k.RawEnd])
			}
		}
		if cb.Dec == dNested {
			if cb.Ret != kid.End-kid.Start {
				return fmt.Sprintf("level %d: nested traversal of member %d returned offset %d, member is %d bytes", level, i, cb.Ret, kid.End-kid.Start)
			}
			if v := checkHistory(doc, kid, cbs, level+1, pos); v != "" {
				return v
			}
		}
	}
	if level == 0 && *pos != len(cbs) {
		return fmt.Sprintf("%d callbacks for %d members: extra callback %v", len(cbs), len(n.Kids), cbs[*pos])
	}
	return ""
}
