package main

import (
	"fmt"

	"github.com/willabides/rjson"
)

// C09 — a handler error stops the traversal and is returned unchanged.

type c09 struct{}

func init() { register(c09{}) }

func (c09) ID() string    { return "C09" }
func (c09) Level() string { return "fault_enumeration" }
func (c09) Procs() int    { return 2 }
func (c09) Budget(tier string) (int, int) {
	if tier == "thorough" {
		return 400000000, 480
	}
	return 80000, 90
}
func (c09) Rule() string {
	return "fault H-error@k: the simulator-owned handler (as a HandlerFunc adapter or as a struct implementing the interface) returns a chosen error value (pointer sentinel, comparable struct value, io.EOF, slice-/map-/func-typed errors whose dynamic type is not comparable, a typed nil pointer inside a non-nil interface) (or one of 13 error values obtained from the library itself - errUnexpectedEOF, errInvalidArray, errNoValidToken, errPOutOfRange ... - as a handler that passes a reader's error on would) at callback k with an accompanying offset from {0, exact end, the hostile catalogue incl. values near the integer limits}; earlier callbacks decline/consume/run nested traversals from the tape; half of the traversals pass one Buffer that lives for the whole scenario and has therefore seen aborted calls. For containers of <= 32 members every k is enumerated (one scenario per k), larger ones are sampled. Also nested: the error is raised inside a traversal started from a callback and must come back through every level. A run is non-trivial when an error was injected; distinct = distinct hashes of (operation, document class, decisions, k, error kind, offset class)."
}
func (c09) Assumptions() []string {
	return []string{"error identity is Go interface equality (==) between the returned error and the injected value", "input documents are sampled"}
}
func (c09) Required(tier string) []string {
	return []string{"H-error", "H-nested", "error-is-a-library-error-value", "error-of-uncomparable-type", "error-is-a-typed-nil-pointer", "error-wraps-a-library-error", "struct-handler", "func-adapter-handler", "error-at-scalar-member", "error-at-string-member", "error-at-container-member", "error-offset-near-maxint", "error-in-nested-traversal", "traversal-with-a-buffer-that-saw-aborted-calls", "error-raised-thousands-of-re-entrant-levels-down", "error-replaced-on-the-way-up"}
}

// deepErrHandler descends a deeply nested document with one traversal per level, every level
// re-entering the library with the SAME Buffer (or none). At level injectAt it returns error e1;
// at level replaceAt (above it, or -1) it swallows whatever came up from below and returns its own
// error e2 instead - both perfectly legal handler behaviour. Calls made after the first error are counted.
type deepErrHandler struct {
	buf                 *rjson.Buffer
	depth               int
	injectAt, replaceAt int
	e1, e2              error
	raised              bool // e1 was returned
	replaced            bool // e2 was returned in place of an error that came up from below
	after               int
}

func (h *deepErrHandler) member(data []byte) (int, error) {
	if h.raised || h.replaced {
		h.after++
	}
	h.depth++
	defer func() { h.depth-- }()
	if h.depth == h.injectAt {
		h.raised = true
		return 0, h.e1
	}
	if len(data) == 0 {
		return 0, nil
	}
	var p int
	var err error
	switch data[0] {
	case '[':
		p, err = rjson.HandleArrayValues(data, h, h.buf)
	case '{':
		p, err = rjson.HandleObjectValues(data, h, h.buf)
	default:
		return 0, nil
	}
	if err != nil && h.depth == h.replaceAt {
		// whatever failed below - the handler's own e1 or the library refusing to go on - this level
		// reports its own error, and that is the one the traversals above must hand up
		h.replaced = true
		h.after = 0
		return p, h.e2
	}
	return p, err
}
func (h *deepErrHandler) HandleArrayValue(d []byte) (int, error)     { return h.member(d) }
func (h *deepErrHandler) HandleObjectValue(_, d []byte) (int, error) { return h.member(d) }

func (c09) Gen(r *Rand, sc *Scenario, tier string) {
	if r.Chance(1, 60) {
		// one traversal per nesting level, thousands of levels, all through one Buffer; the error is raised
		// far down and (sometimes) replaced by another one on the way up
		n := []int{50, 2000, 9999, 10001, 10500, 12000}[r.Intn(6)]
		sc.Docs = []Doc{deepDoc([]int{0, 1, 2, 3}[r.Intn(4)], n, "1")}
		inj := r.Range(n/2, n)
		rep := -1
		if r.Chance(2, 3) {
			rep = r.Range(1, inj-1)
		}
		sc.Tasks = [][]Op{{{Kind: "deep-descent", Doc: 0, A: r.Intn(2), B: inj, C: rep, Tape: []int{r.Intn(nErrKinds), r.Intn(nErrKinds)}}}}
		return
	}
	obj := r.Chance(1, 2)
	n := memberCount(r)
	if n == 0 {
		n = 1
	}
	var doc Doc
	if r.Chance(1, 6) {
		doc = genTraversalDoc(r, obj, true)
	} else {
		b := genContainerDoc(r, obj, n, 1500)
		if r.Chance(1, 8) {
			b = mutateDoc(r, b)
		}
		doc = docOf(b, "container")
	}
	sc.Docs = []Doc{doc}
	errDec := func() int {
		ek := r.Intn(nErrKinds)
		off := r.Pick(2, 2, 8)
		if off == 2 {
			off = 2 + r.Intn(nHostile)
		}
		return mkDec(dError, ek+nErrKinds*off)
	}
	var ops []Op
	if n <= 32 && r.Chance(2, 3) {
		// enumerate k
		pre := genDecisionTape(r, n, true)
		for k := 0; k < n; k++ {
			t := append([]int(nil), pre[:k]...)
			// nested decisions before k could consume members; keep them plain so that callback k is member k
			for i := range t {
				if t[i]%8 == dNested {
					t[i] = r.Intn(2)
				}
			}
			t = append(t, errDec())
			ops = append(ops, Op{Kind: kindName(obj), Doc: 0, Tape: t, B: r.Intn(2), A: r.Intn(2)})
		}
	} else {
		k := r.Intn(n + 2)
		t := genDecisionTape(r, k, true)
		t = append(t, errDec())
		// some more errors later on the tape, in case nested traversals shifted positions
		for i := 0; i < 4; i++ {
			t = append(t, errDec())
		}
		ops = append(ops, Op{Kind: kindName(obj), Doc: 0, Tape: t, B: r.Intn(2), A: r.Intn(2)})
	}
	sc.Tasks = [][]Op{ops}
}

func (c09) Exec(sc *Scenario, st *Stats) *Violation {
	shared := &rjson.Buffer{} // one Buffer for all traversals of the scenario that ask for one: it has seen aborted calls before
	for oi, op := range sc.Tasks[0] {
		doc := sc.Docs[op.Doc].Bytes()
		if op.Kind == "deep-descent" {
			errs := allSimErrors()
			t := NewTape(op.Tape)
			h := &deepErrHandler{injectAt: op.B, replaceAt: op.C, e1: errs[t.Next()%len(errs)], e2: errs[t.Next()%len(errs)]}
			if op.A == 1 {
				h.buf = shared
			}
			var err error
			panicked := ""
			func() {
				defer func() {
					if r := recover(); r != nil {
						panicked = panicString(r)
					}
				}()
				if len(doc) > 0 && doc[0] == '{' {
					_, err = rjson.HandleObjectValues(doc, h, h.buf)
				} else {
					_, err = rjson.HandleArrayValues(doc, h, h.buf)
				}
			}()
			st.fault("H-error")
			st.probe("error-raised-thousands-of-re-entrant-levels-down")
			st.evi("deep", op.B)
			want := h.e1
			if h.replaced {
				want = h.e2
				st.probe("error-replaced-on-the-way-up")
			}
			viol := func(class, detail string) *Violation {
				return &Violation{Class: class, Task: 0, Op: oi, Sig: "C09/" + class + "/deep-descent",
					Detail: fmt.Sprintf("one traversal per level on %q (inject at level %d, replace at level %d, shared Buffer=%v): %s", clip(string(doc), 40), op.B, op.C, op.A == 1, detail)}
			}
			switch {
			case panicked != "":
				return viol("panic-after-error", panicked)
			case !h.raised && !h.replaced:
				// the handler never returned an error of its own (the document is shallower than the injection
				// level, or the library stopped the descent first and nobody replaced its error)
			case err == nil:
				return viol("swallowed", "the handler returned an error but the outermost traversal reported success")
			case !sameErr(err, want):
				return viol("identity", fmt.Sprintf("the outermost traversal returned %v, not the error its handler returned (%v)", err, want))
			case h.after != 0:
				return viol("calls-after-error", fmt.Sprintf("%d handler calls were made after the error was raised", h.after))
			}
			continue
		}
		e := newHEnv(st, NewTape(op.Tape))
		e.structH = op.B%2 == 1
		if op.A == 1 {
			e.buf = shared
			st.probe("traversal-with-a-buffer-that-saw-aborted-calls")
		}
		st.ev(op.Kind)
		st.ev(sc.Docs[op.Doc].Class)
		out := e.traverse(travKind(op.Kind), doc)
		viol := func(class, detail string) *Violation {
			return &Violation{Class: class, Task: 0, Op: oi, Sig: "C09/" + class + "/" + op.Kind,
				Detail: fmt.Sprintf("%s on %q tape %v: %s", op.Kind, clip(string(doc), 80), op.Tape, detail)}
		}
		if out.Panic != "" {
			if e.thrown >= 0 {
				return viol("panic-after-error", out.Panic)
			}
			continue // totality under hostile values belongs to C10
		}
		if e.propFail != "" {
			return viol("identity-nested", e.propFail)
		}
		if e.thrown < 0 {
			continue
		}
		// probes: which kind of member was the failing call given
		for i := len(out.CBs) - 1; i >= 0; i-- {
			cb := out.CBs[i]
			if cb.Dec == dError {
				if cb.Level > 0 {
					st.probe("error-in-nested-traversal")
				}
				if cb.Ret > maxInt-64 {
					st.probe("error-offset-near-maxint")
				}
				break
			}
		}
		st.probe(errMemberProbe(doc, out.CBs))
		switch {
		case e.thrown >= 20:
			st.probe("error-wraps-a-library-error")
		case e.thrown >= 19:
			st.probe("error-is-a-typed-nil-pointer")
		case e.thrown >= 16:
			st.probe("error-of-uncomparable-type")
		case e.thrown >= 3:
			st.probe("error-is-a-library-error-value")
		}
		if e.structH {
			st.probe("struct-handler")
		} else {
			st.probe("func-adapter-handler")
		}
		st.evi("erridx", e.thrown)
		if out.OK {
			return viol("swallowed", "the handler returned an error but the traversal reported success")
		}
		if out.ErrIdx != e.thrown {
			return viol("identity", "the traversal returned an error that is not the value the handler returned")
		}
		if out.After != 0 {
			return viol("calls-after-error", fmt.Sprintf("%d handler calls were made after the handler returned an error", out.After))
		}
	}
	return nil
}

func errMemberProbe(doc []byte, cbs []CB) string {
	for i := len(cbs) - 1; i >= 0; i-- {
		cb := cbs[i]
		if cb.Dec != dError || cb.Level != 0 {
			continue
		}
		if cb.Start < 0 || cb.Start >= len(doc) {
			return "error-at-other"
		}
		switch doc[cb.Start] {
		case '"':
			return "error-at-string-member"
		case '[', '{':
			return "error-at-container-member"
		default:
			return "error-at-scalar-member"
		}
	}
	return "error-at-nested-level-only"
}
