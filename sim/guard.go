package main

// Hostile memory layout (fault kind M-guard): an input is placed so that it ends exactly at the end
// of a page that is followed by an inaccessible page, and the input's own pages are read-only.
// Safe Go cannot notice (every access is bounds-checked), but code that uses unsafe loads beyond
// len(data) - an 8-bytes-at-a-time scan, a peek at data[len] - or that writes into its input, even
// temporarily (a sentinel byte put behind the token and restored afterwards), faults here.
// debug.SetPanicOnFault turns the fault into a panic on the calling goroutine, which the operation
// wrapper recovers like any other panic.
//
// Arenas are never unmapped: a (wrongly) returned string or slice that still points into one stays
// readable, so the harness itself can never fault when it looks at results later.

import (
	"runtime/debug"
	"strings"
	"syscall"
	"unsafe"
)

const guardPage = 4096
const guardMax = 64 * 1024 // largest input placed in an arena

type guardArena struct {
	mem []byte // guardMax bytes of data pages followed by one inaccessible page
}

type guardRing struct {
	arenas []*guardArena
	next   int
	failed bool
}

func newGuardRing() *guardRing { return &guardRing{} }

// place copies b into the next arena of the ring so that it ends at the page boundary in front of the
// inaccessible page, makes the data pages read-only, and returns the slice (cap == len). ok is false
// when the input is too large or the platform refuses the mapping; the caller then uses a plain copy.
func (g *guardRing) place(b []byte) (out []byte, ok bool) {
	if g == nil || g.failed || len(b) > guardMax {
		return nil, false
	}
	if len(g.arenas) < 6 {
		mem, err := syscall.Mmap(-1, 0, guardMax+guardPage, syscall.PROT_READ|syscall.PROT_WRITE, syscall.MAP_ANON|syscall.MAP_PRIVATE)
		if err != nil {
			g.failed = true
			return nil, false
		}
		if err := syscall.Mprotect(mem[guardMax:], syscall.PROT_NONE); err != nil {
			g.failed = true
			return nil, false
		}
		g.arenas = append(g.arenas, &guardArena{mem: mem})
	}
	a := g.arenas[g.next%len(g.arenas)]
	g.next++
	data := a.mem[:guardMax]
	if err := syscall.Mprotect(data, syscall.PROT_READ|syscall.PROT_WRITE); err != nil {
		g.failed = true
		return nil, false
	}
	for i := range data[:guardMax-len(b)] {
		data[i] = poisonByte
	}
	start := guardMax - len(b)
	copy(data[start:], b)
	if err := syscall.Mprotect(data, syscall.PROT_READ); err != nil {
		g.failed = true
		return nil, false
	}
	return data[start:guardMax:guardMax], true
}

// panicOnFault makes memory faults on the calling goroutine recoverable panics; the returned function
// restores the previous setting.
func panicOnFault() func() {
	old := debug.SetPanicOnFault(true)
	return func() { debug.SetPanicOnFault(old) }
}

// theGuardRing is the worker process's ring of arenas (single-task checks only).
var theGuardRing = newGuardRing()

// faultIn reports whether a recovered panic text is a memory fault and, if so, whether the faulting
// address lies inside data's own (read-only) bytes - a write into the input - or elsewhere (the
// inaccessible page behind it: an access beyond the end).
func faultIn(panicText string, data []byte) (fault, insideInput bool) {
	const marker = "unexpected fault address 0x"
	i := strings.Index(panicText, marker)
	if i < 0 {
		return false, false
	}
	var addr uint64
	for _, c := range panicText[i+len(marker):] {
		switch {
		case c >= '0' && c <= '9':
			addr = addr*16 + uint64(c-'0')
		case c >= 'a' && c <= 'f':
			addr = addr*16 + uint64(c-'a'+10)
		default:
			goto done
		}
	}
done:
	if cap(data) == 0 {
		return true, false
	}
	full := data[:cap(data)]
	lo := uint64(uintptr(unsafe.Pointer(&full[0])))
	// the arena's data pages start guardMax bytes before the end of the input
	end := lo + uint64(len(full))
	return true, addr < end && addr >= end-guardMax
}
