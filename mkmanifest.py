#!/usr/bin/env python3
"""Regenerates MANIFEST.json from the table below (kept as code so that it is always valid)."""
import json, subprocess

NA = {
 "C01": "Valid's verdict is a pure function of the input bytes (grammar state x byte value): there is no schedule, clock, fault, history or second party for a simulator to own; deciding it is input enumeration. Its buffer-independence clause is decided under C14.",
 "C02": "SkipValue's (success, offset) is a pure function of the input bytes; no schedule/fault/history dimension. Buffer clause decided under C14.",
 "C04": "Correctly-rounded float conversion is a pure arithmetic function of the literal; it fails only on measure-zero input families that boundary enumeration reaches, not on any interleaving or fault.",
 "C05": "Integer readers are pure functions of the digit string (windows around type bounds); nothing for a scheduler or fault injector to do.",
 "C06": "String validation/decoding is a pure function of the token bytes (byte x state sweep, 2^32 surrogate pairs); no history or fault dimension (destination-buffer behaviour is decided under C16).",
 "C11": "SkipValueFast == SkipValue on well-formed input is a relation between two pure functions of the same bytes.",
 "C13": "Token classification and literal readers are table look-ups / tiny DFAs over the input bytes only.",
 "C17": "StdLibCompatible helpers are pure functions of a string / value tree (map iteration order only matters for colliding keys, which the statement excludes).",
}

# id -> (level category, technique, level text, level note, design ref)
CLAIMED = {
 "C03": ("exploration", "deterministic simulation of ValueReader histories under tape-decided pool schedules (hit/miss/pick/evict at every borrow); reference-model oracle",
         "REDUCED SCOPE. Decides that the generic decoder's result does not depend on which pooled child reader serves which nested value, nor on reader reuse, and equals an independent reference parser (cross-checked with encoding/json per document) on sampled tree shapes incl. duplicate/escaped keys, empty containers, depth 9,999/10,000/10,001, every float path, raw invalid UTF-8; typed entry points reject other roots and null. Histories also contain: the next message arriving in the same read buffer (same address / length / structure, other content), thousands of never-seen field names, and the caller modifying earlier results (later results must not show it). The byte-string quantifier itself is only sampled.",
         "Trusts model.go (cross-checked against encoding/json's streaming decoder on every document <= 64 KB: well-formedness, end offset and tree after U+FFFD replacement); the pool seam replaces sync.Pool.", "DESIGN.md section 4 C03"),
 "C07": ("exploration", "deterministic simulation of the library<->handler protocol: tape-driven handler decisions, recorded callback history checked against a reference parser",
         "Seeded search over (document, per-callback decline/consume/nested-traversal decision) scenarios; every recorded callback history and final offset is checked against an independent RFC 8259 reference parser. Sampling, not proof: the document space is sampled, the decision space is enumerated only for containers of <= 8 members (thorough).",
         "Trusts the reference parser (cross-checked against encoding/json on every document; disagreement aborts with exit 2). Documents nested <= 10,000.", "DESIGN.md section 4 C07"),
 "C08": ("exploration", "deterministic simulation: family of tape-driven API-composition decoders (typed readers / skip / skip-fast / decline / nested traversals, three Buffer-sharing patterns); self-differential oracle",
         "Seeded search over (document, per-member strategy tape, buffer pattern); oracle is direct ReadValue on the same bytes: equal final offset for every decoder, equal tree for read-everything decoders, failure of read-everything decoders where direct decoding fails (nesting <= 9,000). A scenario may be a stream of two same-length messages through one read buffer decoded by the same decoder. Decoders may keep a long-lived ValueReader and Buffers that have read (or failed on) the scenario's earlier documents.",
         "Self-differential: ReadValue of the same tree is the reference (its own correctness is C03's). Values read through integer readers are not compared.", "DESIGN.md section 4 C08"),
 "C09": ("fault_enumeration", "fault injection: handler error at callback k (enumerated for <= 32 members) x error kind x accompanying offset incl. integer-limit values; history oracle",
         "For each generated container every position k of the failing call is enumerated (<= 32 members) with pointer/value/io.EOF sentinels and offsets from the hostile catalogue; oracle is interface identity of the returned error and zero callbacks after the fault, also through nested traversals - incl. one traversal per nesting level through one Buffer down to 12,000 levels with the error raised far down and replaced by a handler on the way up.",
         "Documents are sampled; identity is Go == on the error interface.", "DESIGN.md section 4 C09"),
 "C10": ("fault_enumeration", "fault injection: hostile handler return values at every callback, hostile documents (also from each entry point's own domain, cut mid-token), scribbled/resized Buffers, dirty destinations, hostile memory layout (read-only input in front of an inaccessible page; cut-off part of a truncated document in the spare capacity); safety invariants after every operation; hang watchdog",
         "Every exported function runs on hostile documents (nesting to 1,000,000, megabyte tokens, every truncation, random bytes) with a handler returning integers from a 40-entry hostile catalogue (incl. the values that wrap p+pp), errors, or re-entering the library; invariants: no panic, termination, err==nil => 0<=p<=len, out-of-range offsets on consumed members => error.",
         "Not quantified over nil handlers / nil targets / zero ValueReader as handler (API misuse). Termination via wall-clock watchdog. Scalar members ignore handler offsets by design.", "DESIGN.md section 4 C10, 6.2, 6.6"),
 "C12": ("exploration", "deterministic state-machine simulation: Decode targets carry values through histories of succeeding / failing / null calls; self-differential + target model",
         "REDUCED SCOPE. Histories of Decode calls on long-lived non-zero targets; oracle is the corresponding Read* on the same bytes plus a harness-side literal-null test: store exactly on reader success, offset just after null and untouched target on null, error and untouched target otherwise. Inputs are sampled per class (accepted, null behind whitespace, near-miss nulls incl. partial nulls with the rest behind the input, wrong type, out of range, numeric type boundaries, reader-prefix-then-null, truncated); one call in five finds its target holding a value derived from the input it is about to decode (raw text, the very value, the other sign of zero).",
         "What each reader accepts is taken from the Read* function of the same tree (C04/C05/C06/C13 own that).", "DESIGN.md section 4 C12"),
 "C14": ("exploration", "deterministic simulation of Buffer histories: scribble/resize faults between and inside calls, re-entrant handlers sharing the enclosing Buffer; twin execution with no Buffer as oracle",
         "Histories of 1-12 buffer-taking calls incl. failing, depth-limited and handler-aborted ones, with the Buffer's stack overwritten/resized between calls and inside callbacks and handlers re-entering the library with the enclosing call's Buffer; each call is re-executed with nil buffers and the same tape: outcome and callback history must be identical. Histories include 12,000 failing / handler-aborted / handler-panicking calls in a row, partial messages followed by the retry at the same address, same-length rewrites (content and structure) of the read buffer, documents of hundreds of kilobytes, garbage collections between calls.",
         "Self-differential (nil-buffer run of the same code). Sampled histories.", "DESIGN.md section 4 C14"),
 "C15": ("exploration", "deterministic simulation of ValueReader histories under tape-decided pool schedules; fresh-reader twin + deep snapshots re-verified after every step and after caller mutations",
         "Histories of 1-10 reads on one reader incl. failing / depth-limit exits / documents of very different size, with P-miss / P-pick / P-evict at every borrow and caller mutations of returned trees; each result must equal a brand-new reader's, and every earlier result (trees and kept error values) must stay equal to its snapshot. Histories include the next message at the same address, thousands of never-seen field names, runs of homogeneous arrays through one entry point, and a reader that has read tens of millions of values.",
         "Self-differential (fresh reader). The pool seam replaces sync.Pool (real sync.Pool behaviour is a subset of the schedules the tape can express).", "DESIGN.md section 4 C15"),
 "C16": ("fault_enumeration", "fault injection on destination/scratch buffers (40 prefix x spare-capacity configurations enumerated), poisoned input capacity, post-return overwrite; differential against empty destination + snapshots",
         "Appending functions are run with every one of 40 dirty-destination configurations (thorough) and compared with the empty-destination result; scratch functions with dirty reused scratch vs none; every exported function's input [:cap] is compared after the call (also failing calls); inputs, scratch and destinations are overwritten after return and all returned strings/trees re-compared; one input in four is mapped read-only in front of an inaccessible page (a write into the input faults even if it is undone before returning); argument trees of the StdLibCompatible helpers are scrubbed after the copy was taken.",
         "Results of failing calls unconstrained. Inputs sampled.", "DESIGN.md section 4 C16"),
 "C18": ("exploration", "deterministic simulation: seeded cooperative scheduler over real goroutines parked at ~5,650 AST-inserted yield points (every statement) of an instrumented scratch copy; random-quantum, preemption-bounded, shared-state-aimed and exhaustive single-preemption-sweep schedules (stage A), plus free-running -race stage (B)",
         "Stage A: 2-6 tasks on shared read-only documents, exactly one runnable, task and quantum from the schedule tape (random quanta; 1-3 preemptions placed from the task's own sequential yield count with a complete foreign operation in the gap; preemptions aimed at functions touching mutable package-level state when the tree has any; blocks of 1,024 scenarios that sweep every single-preemption point of a two-task base scenario); each operation's outcome incl. error text must equal the sequential run. Stage B: same scenarios uninstrumented under the race detector on 8x12 (quick) fresh processes, concurrent phase first. Both must pass. Stage A is replayable and shrinkable; stage B is not schedule-deterministic (evidence says so).",
         "Interleaving granularity = instrumented yield sites. Race detector for stage B.", "DESIGN.md section 4 C18, 7.2"),
 "C19": ("exploration", "simulated histories on warmed Buffers/destinations with allocation-count invariant (MemStats.Mallocs == 0 for the first call, for 8 repetitions, and for the first call of a fresh child process; GOMAXPROCS=1)",
         "REDUCED SCOPE. Every successful call of the zero-allocation class inside histories that dirty the shared Buffer/destination first (incl. failing calls) must allocate nothing; inputs are drawn per conversion path (exact float, Eisel-Lemire, long mantissa, halfway, subnormal, 18/19/20-digit ints, all escape kinds, depth equal to warmed depth, destination slack exactly 0, in-place and same-arena destinations); the first call after the preconditions hold is measured on its own (after a GC that empties pools), and one operation in twelve is also measured as the very first call of a fresh child process (lazily initialised state).",
         "Buffer warmed only by completed top-level non-re-entrant calls. Path labels come from literal shape. Process-wide Mallocs filtered by integer average + min of 3 attempts.", "DESIGN.md section 4 C19, 6.5"),
 "C20": ("exploration", "simulated histories on one reader/buffer with allocation-byte accounting at every prefix (TotalAlloc <= K*bytes + C*calls), adversarial shapes at growing sizes",
         "Histories of validate/skip/traverse/decode calls on adversarial shapes (big container then n small siblings, escapes at every level and in every child, deep nesting, megabyte strings) at sizes x1/x10/x100 and 'one large then up to 20,000 small (also failing) documents' on the same reader, and documents decoded the handler way (traverse, decode every member with the long-lived reader); bound K=1024 B/B, C=64 KiB/call evaluated at every prefix, plus a scaling oracle (bytes allocated per input byte must not grow from size x to 10x) and a differential oracle (small documents after a large one may not cost more than 8x + 1 KiB per call of what they cost on fresh state).",
         "K and C instantiate the statement's 'fixed constants' (3x head-room over the dearest legitimate shape at GOMAXPROCS=1). Realistic pool policy (hit when possible, eviction between calls).", "DESIGN.md section 4 C20, 6.4"),
}

PENDING = {}

def main():
    props = [json.loads(l) for l in open('/verif/properties.jsonl')]
    ids = [p['id'] for p in props]
    checks = []
    for pid in ids:
        if pid in CLAIMED:
            cat, tech, text, note, ref = CLAIMED[pid]
            checks.append({
                "property_id": pid,
                "quick_cmd": "./check %s quick" % pid,
                "thorough_cmd": "./check %s thorough" % pid,
                "evidence_file": "/verif/evidence/%s.json" % pid,
                "replay_cmd_template": "./check %s --replay {path}" % pid,
                "engine": "verifsim",
                "level_claimed": {"category": cat, "text": text, "design_ref": ref},
                "level_note": note,
                "technique": tech,
            })
    na = []
    for pid in ids:
        if pid in CLAIMED:
            continue
        if pid in NA:
            na.append({"property_id": pid, "reason": "not applicable to deterministic simulation: " + NA[pid]})
        else:
            na.append({"property_id": pid, "reason": PENDING.get(pid, "check not built yet in this revision of /verif (planned, see DESIGN.md); not claimed until it exists")})
    try:
        commits = subprocess.check_output(['git', '-C', '/repo', 'log', '--format=%H %s', '09ff252..HEAD'], text=True).strip().splitlines()
    except Exception:
        commits = []
    hook_commits = [c.split()[0] for c in commits if c.split(' ', 1)[1].startswith('verif hooks')]
    man = {
        "version": 1,
        "setup_cmd": "./check build",
        "hooks": {
            "guard": "verif",
            "enable": "go build -tags verif (the check script builds /verif/sim against /repo with -tags verif)",
            "baseline_off_cmd": "cd /repo && GOFLAGS=-mod=mod go test -json -vet=off -count=1 -timeout 25m ./...",
            "source_commits": hook_commits,
            "add_only": True,
        },
        "engines": [{
            "name": "verifsim",
            "path": "/verif/sim",
            "serves_properties": sorted(CLAIMED),
            "kind_free_text": "deterministic simulator with fault injection: seeded scenario generation, tape-driven environment (handlers, child-reader pool, buffer scribbles, task scheduler), pure executor, process-isolated minimiser, replay = scenario file",
        }],
        "checks": checks,
        "not_applicable": na,
        "notes": "Every check: exit 0 held, exit 1 + 'VIOLATION property=<id> replay=<path>', exit 2 machinery trouble (build failure, harness self-check, required fault kind never fired, non-reproducing replay). Genuine defects of the pinned tree repaired by 'fix:' commits are listed in known_findings.json as fixed.",
    }
    json.dump(man, open('/verif/MANIFEST.json', 'w'), indent=1)
    print("claimed:", sorted(CLAIMED), "n/a:", [x['property_id'] for x in na])

main()
