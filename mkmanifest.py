#!/usr/bin/env python3
"""Regenerates MANIFEST.json from the table below (kept as code so that it is always valid)."""
import json, subprocess

NA = {
 "C01": "Valid's verdict is a pure function of the input bytes (grammar state x byte value): there is no schedule, clock, fault, history or second party for a simulator to own; deciding it is input enumeration. Its buffer-independence clause is decided under C14.",
 "C02": "SkipValue's (success, offset) is a pure function of the input bytes; no schedule/fault/history dimension. Buffer clause decided under C14.",
 "C04": "Correctly-rounded float conversion is a pure arithmetic function of the literal; it fails only on measure-zero input families that boundary enumeration reaches, not on any interleaving or fault.",
 "C05": "Integer readers are pure functions of the digit string (windows around type bounds); nothing for a scheduler or fault injector to do.",
 "C06": "String validation/decoding is a pure function of the token bytes (byte x state sweep, 2^32 surrogate pairs); no history or fault dimension (destination-buffer behaviour is decided under C16).",
 "C11": "SkipValueFast == SkipValue on well-formed input is a relation between two pure functions of the same bytes.",
 "C13": "Token classification and literal readers are table look-ups / tiny DFAs over the input bytes only.",
 "C17": "StdLibCompatible helpers are pure functions of a string / value tree (map iteration order only matters for colliding keys, which the statement excludes).",
}

# id -> (level category, technique, level text, level note, design ref)
CLAIMED = {
 "C07": ("exploration", "deterministic simulation of the library<->handler protocol: tape-driven handler decisions, recorded callback history checked against a reference parser",
         "Seeded search over (document, per-callback decline/consume/nested-traversal decision) scenarios; every recorded callback history and final offset is checked against an independent RFC 8259 reference parser. Sampling, not proof: the document space is sampled, the decision space is enumerated only for containers of <= 8 members (thorough).",
         "Trusts the reference parser (cross-checked against encoding/json on every document; disagreement aborts with exit 2). Documents nested <= 10,000.", "DESIGN.md section 4 C07"),
 "C09": ("fault_enumeration", "fault injection: handler error at callback k (enumerated for <= 32 members) x error kind x accompanying offset incl. integer-limit values; history oracle",
         "For each generated container every position k of the failing call is enumerated (<= 32 members) with pointer/value/io.EOF sentinels and offsets from the hostile catalogue; oracle is interface identity of the returned error and zero callbacks after the fault, also through nested traversals.",
         "Documents are sampled; identity is Go == on the error interface.", "DESIGN.md section 4 C09"),
}

PENDING = {}

def main():
    props = [json.loads(l) for l in open('/verif/properties.jsonl')]
    ids = [p['id'] for p in props]
    checks = []
    for pid in ids:
        if pid in CLAIMED:
            cat, tech, text, note, ref = CLAIMED[pid]
            checks.append({
                "property_id": pid,
                "quick_cmd": "./check %s quick" % pid,
                "thorough_cmd": "./check %s thorough" % pid,
                "evidence_file": "/verif/evidence/%s.json" % pid,
                "replay_cmd_template": "./check %s --replay {path}" % pid,
                "engine": "verifsim",
                "level_claimed": {"category": cat, "text": text, "design_ref": ref},
                "level_note": note,
                "technique": tech,
            })
    na = []
    for pid in ids:
        if pid in CLAIMED:
            continue
        if pid in NA:
            na.append({"property_id": pid, "reason": "not applicable to deterministic simulation: " + NA[pid]})
        else:
            na.append({"property_id": pid, "reason": PENDING.get(pid, "check not built yet in this revision of /verif (planned, see DESIGN.md); not claimed until it exists")})
    try:
        commits = subprocess.check_output(['git', '-C', '/repo', 'log', '--format=%H %s', '09ff252..HEAD'], text=True).strip().splitlines()
    except Exception:
        commits = []
    hook_commits = [c.split()[0] for c in commits if c.split(' ', 1)[1].startswith('verif hooks')]
    man = {
        "version": 1,
        "setup_cmd": "./check build",
        "hooks": {
            "guard": "verif",
            "enable": "go build -tags verif (the check script builds /verif/sim against /repo with -tags verif)",
            "baseline_off_cmd": "cd /repo && GOFLAGS=-mod=mod go test -json -vet=off -count=1 -timeout 25m ./...",
            "source_commits": hook_commits,
            "add_only": True,
        },
        "engines": [{
            "name": "verifsim",
            "path": "/verif/sim",
            "serves_properties": sorted(CLAIMED),
            "kind_free_text": "deterministic simulator with fault injection: seeded scenario generation, tape-driven environment (handlers, child-reader pool, buffer scribbles, task scheduler), pure executor, process-isolated minimiser, replay = scenario file",
        }],
        "checks": checks,
        "not_applicable": na,
        "notes": "Every check: exit 0 held, exit 1 + 'VIOLATION property=<id> replay=<path>', exit 2 machinery trouble (build failure, harness self-check, required fault kind never fired, non-reproducing replay). Genuine defects of the pinned tree repaired by 'fix:' commits are listed in known_findings.json as fixed.",
    }
    json.dump(man, open('/verif/MANIFEST.json', 'w'), indent=1)
    print("claimed:", sorted(CLAIMED), "n/a:", [x['property_id'] for x in na])

main()
